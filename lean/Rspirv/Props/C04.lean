import Rspirv.Props.C11
import Rspirv.Props.C14
import Rspirv.Model.LoadBytes
import Rspirv.Instances
/-!
# C04 — parsing never panics

Every `assert!`, `expect`, index, `panic!()` and arithmetic overflow of `binary/parser.rs`, `binary/decoder.rs`,
`binary/tracker.rs` and of the generated `parse_operand` is an explicit `.panic site` outcome of the model
(`Rspirv.Model.Parser`, `Rspirv.Model.Decoder`), and so are the fuel bounds that make the model's loops structural.
This file proves that none of them is reachable: for every table set that passes the Boolean check `tablesSafe`
(decided by the kernel on the tables regenerated from the source), every byte string shorter than `2^63` (a Rust
slice) and every consumer behaviour, `parse` returns `ok` or an error value.

The check `tablesSafe` is an abstract interpretation of `parse_operands` over each grammar entry: it tracks whether
the result type has been read, whether the first collected operand is an `IdRef`, and a lower bound on the number of
collected operands, and refuses an entry on which a context-dependent kind could meet its `assert!`/`expect`/index
unprepared, or on which `TypeTracker::track` could index past the operands. Its soundness is `loop_safe`.
-/
namespace Rspirv.Props.C04
open Rspirv Rspirv.Model Rspirv.Model.DState Rspirv.Props.C11

/-- frame + no panic -/
@[reducible] def Safe {α : Type} (d : DState) (r : PRes IErr α × DState) : Prop :=
  Frame d r.2 ∧ ∀ s, r.1 ≠ .panic s

/-- success consumes at least one word -/
@[reducible] def Prog {α : Type} (d : DState) (r : PRes IErr α × DState) : Prop :=
  ∀ a, r.1 = .ok a → d.offset + 4 ≤ r.2.offset

theorem small_of_frame {d d' : DState} (f : Frame d d') (hs : Small d) : Small d' := by
  unfold Small at *; rw [f.bytes]; exact hs

/-! ### table well-formedness (Boolean, decided by the kernel on the regenerated tables) -/

def elemOk (G : Tables) (e : Elem) : Bool :=
  (e.dec != 0 || decide (e.ix < G.enums.length)) && (e.dec != 1 || decide (e.ix < G.masks.length))

def actOk (G : Tables) : KindAct → Bool
  | .elems es => !es.isEmpty && es.all (elemOk G)
  | .maskParams e rows => elemOk G e && rows.all (fun r => r.2.all (elemOk G))
  | .enumParams e rows => elemOk G e && rows.all (fun r => r.2.all (elemOk G))
  | .panics => true

/-- a kind `parse_operand` can be called with: it has an arm, the arm is not `panic!()`, its elements are decodable -/
def kindOk (G : Tables) (k : Nat) : Bool :=
  match G.kindActs[k]? with
  | none => false
  | some .panics => false
  | some a => actOk G a

/-! ### decoder requests lifted to operands -/

theorem decodeElem_safe (G : Tables) (e : Elem) (d : DState) (hi : Inv d) (hs : Small d) (he : elemOk G e = true) :
    Safe d (decodeElem G e d) ∧ Prog d (decodeElem G e d) := by
  unfold elemOk at he
  simp only [Bool.and_eq_true, Bool.or_eq_true, bne_iff_ne, ne_eq, decide_eq_true_eq] at he
  unfold decodeElem
  by_cases h0 : e.dec = 0
  · have hlt : e.ix < G.enums.length := by rcases he.1 with h | h; exact absurd h0 h; exact h
    simp only [h0, beq_self_eq_true, if_true, List.getElem?_eq_getElem hlt]
    obtain ⟨f, np, ok⟩ := enum_spec G.enums[e.ix] e.ev d
    cases hr : DState.enum G.enums[e.ix] e.ev d with
    | mk r d' =>
      rw [hr] at f np ok
      cases r with
      | ok v => exact ⟨⟨f, by simp⟩, by intro a _; have := (ok v rfl).2; simp at this ⊢; omega⟩
      | err x => exact ⟨⟨f, by simp⟩, by intro a h; cases h⟩
      | panic s => exact absurd rfl (np s)
  · have b0 : (e.dec == 0) = false := by simpa using h0
    simp only [b0, Bool.false_eq_true, if_false]
    by_cases h1 : e.dec = 1
    · have hlt : e.ix < G.masks.length := by rcases he.2 with h | h; exact absurd h1 h; exact h
      simp only [h1, beq_self_eq_true, if_true, List.getElem?_eq_getElem hlt]
      obtain ⟨f, np, ok⟩ := mask_spec G.masks[e.ix] e.ev d
      cases hr : DState.mask G.masks[e.ix] e.ev d with
      | mk r d' =>
        rw [hr] at f np ok
        cases r with
        | ok v => exact ⟨⟨f, by simp⟩, by intro a _; have := (ok v rfl).2; simp at this ⊢; omega⟩
        | err x => exact ⟨⟨f, by simp⟩, by intro a h; cases h⟩
        | panic s => exact absurd rfl (np s)
    · have b1 : (e.dec == 1) = false := by simpa using h1
      simp only [b1, Bool.false_eq_true, if_false]
      by_cases h2 : e.dec = 2
      · simp only [h2, beq_self_eq_true, if_true]
        have f := word_frame d
        rcases word_spec d with ⟨_, hw⟩ | ⟨_, _, hw⟩ | ⟨_, _, hw⟩ <;> rw [hw] at f ⊢
        · exact ⟨⟨f, by simp⟩, by intro a h; cases h⟩
        · exact ⟨⟨f, by simp⟩, by intro a _; simp⟩
        · exact ⟨⟨f, by simp⟩, by intro a h; cases h⟩
      · have b2 : (e.dec == 2) = false := by simpa using h2
        simp only [b2, Bool.false_eq_true, if_false]
        have f := string_frame d hi hs
        obtain ⟨np, _, ok⟩ := string_spec d hi hs
        cases hr : DState.string d with
        | mk r d' =>
          rw [hr] at f np ok
          cases r with
          | ok v =>
            refine ⟨⟨f, by simp⟩, ?_⟩
            intro a _
            obtain ⟨nul, _, _, _, _, hoff, _⟩ := ok v rfl
            simp at hoff ⊢; omega
          | err x => exact ⟨⟨f, by simp⟩, by intro a h; cases h⟩
          | panic s => exact absurd rfl (np s)

theorem decodeElems_safe (G : Tables) : ∀ (es : List Elem) (d : DState), Inv d → Small d → es.all (elemOk G) = true →
    Safe d (decodeElems G es d) ∧ (∀ os, (decodeElems G es d).1 = .ok os → os.length = es.length) ∧
    (es ≠ [] → Prog d (decodeElems G es d))
  | [], d, _, _, _ => by
    refine ⟨⟨Frame.refl d, by simp [decodeElems]⟩, ?_, fun h => absurd rfl h⟩
    intro os h; simp [decodeElems] at h; simp [← h]
  | e :: es, d, hi, hs, hall => by
    simp only [List.all_cons, Bool.and_eq_true] at hall
    obtain ⟨⟨f1, np1⟩, pr1⟩ := decodeElem_safe G e d hi hs hall.1
    unfold decodeElems
    cases hr : decodeElem G e d with
    | mk r d1 =>
      rw [hr] at f1 np1 pr1
      cases r with
      | panic s => exact absurd rfl (np1 s)
      | err x =>
        dsimp only
        exact ⟨⟨f1, by simp⟩, (by intro os h; cases h), (by intro _ a h; cases h)⟩
      | ok o =>
        have p1 : d.offset + 4 ≤ d1.offset := pr1 o rfl
        obtain ⟨⟨f2, np2⟩, len2, _⟩ := decodeElems_safe G es d1 (f1.inv hi) (small_of_frame f1 hs) hall.2
        simp only []
        cases hr2 : decodeElems G es d1 with
        | mk r2 d2 =>
          rw [hr2] at f2 np2 len2
          cases r2 with
          | panic s => exact absurd rfl (np2 s)
          | err x =>
            dsimp only
            exact ⟨⟨f1.trans f2, by simp⟩, (by intro os h; cases h), (by intro _ a h; cases h)⟩
          | ok os =>
            dsimp only
            refine ⟨⟨f1.trans f2, by simp⟩, ?_, ?_⟩
            · intro os' h; cases h; simp [len2 os rfl]
            · intro _ a _; have := f2.mono; simp at this ⊢; omega

/-- `parse_operand(kind)` for a kind that has a non-panicking arm: safe, and a success yields at least one operand
and consumes at least one word -/
theorem parseOperand_safe (G : Tables) (k : Nat) (d : DState) (hi : Inv d) (hs : Small d) (hk : kindOk G k = true) :
    Safe d (parseOperand G k d) ∧ Prog d (parseOperand G k d) ∧
    (∀ os, (parseOperand G k d).1 = .ok os → os ≠ []) := by
  unfold kindOk at hk
  unfold parseOperand
  cases ha : G.kindActs[k]? with
  | none => rw [ha] at hk; cases hk
  | some act =>
    rw [ha] at hk
    cases act with
    | panics => cases hk
    | elems es =>
      simp only [actOk, Bool.and_eq_true, Bool.not_eq_true', List.isEmpty_eq_false_iff] at hk
      obtain ⟨s, len, pr⟩ := decodeElems_safe G es d hi hs hk.2
      refine ⟨s, pr hk.1, ?_⟩
      intro os h
      have := len os h
      intro e; rw [e] at this
      exact hk.1 (List.eq_nil_of_length_eq_zero this.symm)
    | maskParams e rows =>
      simp only [actOk, Bool.and_eq_true, List.all_eq_true] at hk
      obtain ⟨⟨f1, np1⟩, pr1⟩ := decodeElem_safe G e d hi hs hk.1
      simp only []
      cases hr : decodeElem G e d with
      | mk r d1 =>
        rw [hr] at f1 np1 pr1
        cases r with
        | panic s => exact absurd rfl (np1 s)
        | err x =>
          dsimp only
          exact ⟨⟨f1, by simp⟩, (by intro a h; cases h), (by intro os h; cases h)⟩
        | ok v =>
          have p1 : d.offset + 4 ≤ d1.offset := pr1 v rfl
          have hsel : (maskSel rows v.num).all (elemOk G) = true := by
            rw [List.all_eq_true]
            intro x hx
            obtain ⟨r, hr, hxr⟩ := List.mem_flatMap.1 hx
            exact hk.2 r (List.mem_filter.1 hr).1 x hxr
          obtain ⟨⟨f2, np2⟩, _, _⟩ := decodeElems_safe G _ d1 (f1.inv hi) (small_of_frame f1 hs) hsel
          dsimp only
          cases hr2 : decodeElems G (maskSel rows v.num) d1 with
          | mk r2 d2 =>
            rw [hr2] at f2 np2
            cases r2 with
            | panic s => exact absurd rfl (np2 s)
            | err x =>
              dsimp only
              exact ⟨⟨f1.trans f2, by simp⟩, (by intro a h; cases h), (by intro os h; cases h)⟩
            | ok os =>
              dsimp only
              refine ⟨⟨f1.trans f2, by simp⟩, ?_, by intro os' h; cases h; simp⟩
              intro a _; have := f2.mono; simp at this ⊢; omega
    | enumParams e rows =>
      simp only [actOk, Bool.and_eq_true, List.all_eq_true] at hk
      obtain ⟨⟨f1, np1⟩, pr1⟩ := decodeElem_safe G e d hi hs hk.1
      simp only []
      cases hr : decodeElem G e d with
      | mk r d1 =>
        rw [hr] at f1 np1 pr1
        cases r with
        | panic s => exact absurd rfl (np1 s)
        | err x =>
          dsimp only
          exact ⟨⟨f1, by simp⟩, (by intro a h; cases h), (by intro os h; cases h)⟩
        | ok v =>
          have p1 : d.offset + 4 ≤ d1.offset := pr1 v rfl
          have hsel : (enumSel rows v.num).all (elemOk G) = true := by
            unfold enumSel
            cases hf : rows.find? (fun r => r.1 == v.num) with
            | none => rfl
            | some r => exact List.all_eq_true.2 (hk.2 r (List.mem_of_find?_eq_some hf))
          obtain ⟨⟨f2, np2⟩, _, _⟩ := decodeElems_safe G _ d1 (f1.inv hi) (small_of_frame f1 hs) hsel
          dsimp only
          cases hr2 : decodeElems G (enumSel rows v.num) d1 with
          | mk r2 d2 =>
            rw [hr2] at f2 np2
            cases r2 with
            | panic s => exact absurd rfl (np2 s)
            | err x =>
              dsimp only
              exact ⟨⟨f1.trans f2, by simp⟩, (by intro a h; cases h), (by intro os h; cases h)⟩
            | ok os =>
              dsimp only
              refine ⟨⟨f1.trans f2, by simp⟩, ?_, by intro os' h; cases h; simp⟩
              intro a _; have := f2.mono; simp at this ⊢; omega

/-! ### literals -/

theorem litOne_safe (G : Tables) (d : DState) : Safe d (litOne G d) ∧ Prog d (litOne G d) := by
  unfold litOne
  have f := word_frame d
  rcases word_spec d with ⟨_, hw⟩ | ⟨_, _, hw⟩ | ⟨_, _, hw⟩ <;> rw [hw] at f ⊢
  · exact ⟨⟨f, by simp⟩, by intro a h; cases h⟩
  · exact ⟨⟨f, by simp⟩, by intro a _; simp⟩
  · exact ⟨⟨f, by simp⟩, by intro a h; cases h⟩

theorem litTwo_safe (d : DState) : Safe d (litTwo d) ∧ Prog d (litTwo d) := by
  unfold litTwo
  obtain ⟨f, np, ok⟩ := bit64_spec d
  cases hr : bit64 d with
  | mk r d' =>
    rw [hr] at f np ok
    cases r with
    | ok v => exact ⟨⟨f, by simp⟩, by intro a _; have := (ok v rfl).2; simp at this ⊢; omega⟩
    | err x => exact ⟨⟨f, by simp⟩, by intro a h; cases h⟩
    | panic s => exact absurd rfl (np s)

theorem parseLiteral_safe (G : Tables) (τ : Tracker) (idx t : Nat) (d : DState) :
    Safe d (parseLiteral G τ idx t d) ∧ Prog d (parseLiteral G τ idx t d) := by
  have bad : ∀ e : IErr, Safe d ((.err e, d) : PRes IErr Operand × DState) ∧ Prog d ((.err e, d) : PRes IErr Operand × DState) :=
    fun e => ⟨⟨Frame.refl d, by simp⟩, by intro a h; cases h⟩
  unfold parseLiteral
  split
  · split
    · exact litOne_safe G d
    · split
      · exact litTwo_safe d
      · exact bad _
  · split
    · exact litOne_safe G d
    · split
      · exact litTwo_safe d
      · exact bad _
  · exact litOne_safe G d

/-! ### OpSpecConstantOp -/

/-- the limit strictly decreases when at least one word is consumed -/
theorem limit_decreases {d d1 : DState} (f : Frame d d1) (l : Nat) (hl : d.limit = some l) (p : d.offset + 4 ≤ d1.offset) :
    ∃ l1, d1.limit = some l1 ∧ l1 < l := by
  obtain ⟨l1, e1, b1⟩ := f.limited l hl
  exact ⟨l1, e1, by omega⟩

theorem limit_stays {d d1 : DState} (f : Frame d d1) (l : Nat) (hl : d.limit = some l) :
    ∃ l1, d1.limit = some l1 ∧ l1 ≤ l := by
  obtain ⟨l1, e1, b1⟩ := f.limited l hl
  have := f.mono
  exact ⟨l1, e1, by omega⟩

theorem parseMany_safe (G : Tables) (k : Nat) (hk : kindOk G k = true) : ∀ (fuel : Nat) (d : DState) (l : Nat),
    Inv d → Small d → d.limit = some l → l < fuel → Safe d (parseMany G k fuel d)
  | 0, _, _, _, _, _, h => absurd h (Nat.not_lt_zero _)
  | fuel + 1, d, l, hi, hs, hl, hlt => by
    unfold parseMany
    split
    · exact ⟨Frame.refl d, by simp⟩
    · obtain ⟨⟨f1, np1⟩, pr1, _⟩ := parseOperand_safe G k d hi hs hk
      cases hr : parseOperand G k d with
      | mk r d1 =>
        rw [hr] at f1 np1 pr1
        cases r with
        | panic s => exact absurd rfl (np1 s)
        | err x => exact ⟨f1, by simp⟩
        | ok os =>
          obtain ⟨l1, hl1, lt1⟩ := limit_decreases f1 l hl (pr1 os rfl)
          obtain ⟨f2, np2⟩ := parseMany_safe G k hk fuel d1 l1 (f1.inv hi) (small_of_frame f1 hs) hl1 (by omega)
          dsimp only
          cases hr2 : parseMany G k fuel d1 with
          | mk r2 d2 =>
            rw [hr2] at f2 np2
            cases r2 with
            | panic s => exact absurd rfl (np2 s)
            | err x => exact ⟨f1.trans f2, by simp⟩
            | ok more => exact ⟨f1.trans f2, by simp⟩

/-- kinds of a nested instruction: result kinds are skipped, every other kind must be parsable -/
def nestedOk (G : Tables) (ops : List (Nat × Nat)) : Bool :=
  ops.all (fun o => o.1 == G.kIdResultType || o.1 == G.kIdResult || kindOk G o.1)

theorem parseNested_safe (G : Tables) : ∀ (ops : List (Nat × Nat)) (d : DState) (l : Nat),
    nestedOk G ops = true → Inv d → Small d → d.limit = some l → Safe d (parseNested G ops d)
  | [], d, _, _, _, _, _ => ⟨Frame.refl d, by simp [parseNested]⟩
  | (k, q) :: rest, d, l, hok, hi, hs, hl => by
    simp only [nestedOk, List.all_cons, Bool.and_eq_true] at hok
    have hrest : nestedOk G rest = true := hok.2
    unfold parseNested
    split
    · exact parseNested_safe G rest d l hrest hi hs hl
    · rename_i hres
      have hk : kindOk G k = true := by
        have := hok.1
        simp only [Bool.or_eq_true] at this hres
        rcases this with (h | h) | h
        · exact absurd (Or.inl h) hres
        · exact absurd (Or.inr h) hres
        · exact h
      have hhere : ∀ r : PRes IErr (List Operand) × DState,
          r = (if q == 0 then parseOperand G k d
               else if q == 1 then (if d.limitReached then (.ok [], d) else parseOperand G k d)
               else parseMany G k ((d.limit.getD 0) + 1) d) → Safe d r := by
        intro r hr
        subst hr
        have hp := (parseOperand_safe G k d hi hs hk).1
        split
        · exact hp
        · split
          · split
            · exact ⟨Frame.refl d, by simp⟩
            · exact hp
          · exact parseMany_safe G k hk _ d l hi hs hl (by rw [hl]; simp)
      dsimp only
      generalize hg : (if q == 0 then parseOperand G k d
               else if q == 1 then (if d.limitReached then (.ok [], d) else parseOperand G k d)
               else parseMany G k ((d.limit.getD 0) + 1) d) = here
      obtain ⟨f1, np1⟩ := hhere here hg.symm
      cases here with
      | mk r d1 =>
        cases r with
        | panic s => exact absurd rfl (np1 s)
        | err x => exact ⟨f1, by simp⟩
        | ok os =>
          obtain ⟨l1, hl1, _⟩ := limit_stays f1 l hl
          obtain ⟨f2, np2⟩ := parseNested_safe G rest d1 l1 hrest (f1.inv hi) (small_of_frame f1 hs) hl1
          dsimp only
          cases hr2 : parseNested G rest d1 with
          | mk r2 d2 =>
            rw [hr2] at f2 np2
            cases r2 with
            | panic s => exact absurd rfl (np2 s)
            | err x => exact ⟨f1.trans f2, by simp⟩
            | ok more => exact ⟨f1.trans f2, by simp⟩

/-- every kind used by a grammar entry is a result kind, a context dependent kind, or parsable by `parse_operand` -/
def coreKindsOk (G : Tables) : Bool :=
  G.core.all (fun e => e.ops.all (fun o => o.1 == G.kIdResultType || o.1 == G.kIdResult || isCtxKind G o.1 || kindOk G o.1))

theorem parseSpecConstantOp_safe (G : Tables) (hc : coreKindsOk G = true) (idx : Nat) (d : DState) (l : Nat)
    (hi : Inv d) (hs : Small d) (hl : d.limit = some l) :
    Safe d (parseSpecConstantOp G idx d) ∧ Prog d (parseSpecConstantOp G idx d) ∧
    (∀ os, (parseSpecConstantOp G idx d).1 = .ok os → os ≠ []) := by
  unfold parseSpecConstantOp
  have f := word_frame d
  rcases word_spec d with ⟨_, hw⟩ | ⟨hl0, hb, hw⟩ | ⟨_, _, hw⟩ <;> rw [hw] at f ⊢
  · exact ⟨⟨f, by simp⟩, (by intro a h; cases h), (by intro os h; cases h)⟩
  · dsimp only
    generalize hg : Option.filter (fun e => !(e.ops.any (fun o => isCtxKind G o.1)))
      (if le32 d.bytes d.offset ≤ 65535 then lookupOpcode G.core (le32 d.bytes d.offset) else none) = g
    cases g with
    | none => exact ⟨⟨f, by simp⟩, (by intro a h; cases h), (by intro os h; cases h)⟩
    | some e =>
      have hmem : e ∈ G.core ∧ (e.ops.any (fun o => isCtxKind G o.1)) = false := by
        rw [Option.filter_eq_some_iff] at hg
        obtain ⟨hlook, hp⟩ := hg
        split at hlook
        · exact ⟨(lookupOpcode_some _ _ _ hlook).1, by simpa using hp⟩
        · cases hlook
      have hnest : nestedOk G e.ops = true := by
        simp only [coreKindsOk, List.all_eq_true] at hc
        simp only [nestedOk, List.all_eq_true]
        intro o ho
        have h1 := hc e hmem.1 o ho
        have h2 : isCtxKind G o.1 = false := by
          have := hmem.2
          rw [List.any_eq_false] at this
          simpa using this o ho
        simp only [Bool.or_eq_true, h2, Bool.false_eq_true, or_false] at h1 ⊢
        exact h1
      obtain ⟨l1, hl1, _⟩ := limit_stays f l hl
      obtain ⟨f2, np2⟩ := parseNested_safe G e.ops _ l1 hnest (f.inv hi) (small_of_frame f hs) hl1
      dsimp only
      cases hr2 : parseNested G e.ops { bytes := d.bytes, offset := d.offset + 4, limit := Option.map (fun x => x - 1) d.limit } with
      | mk r2 d2 =>
        rw [hr2] at f2 np2
        cases r2 with
        | panic s => exact absurd rfl (np2 s)
        | err x => exact ⟨⟨f.trans f2, by simp⟩, (by intro a h; cases h), (by intro os h; cases h)⟩
        | ok os =>
          refine ⟨⟨f.trans f2, by simp⟩, ?_, by intro os' h; cases h; simp⟩
          intro a _; have := f2.mono; simp at this ⊢; omega
  · exact ⟨⟨f, by simp⟩, (by intro a h; cases h), (by intro os h; cases h)⟩

/-! ### abstract interpretation of `parse_operands` over a grammar entry -/

inductive Hd where
  | empty | idref | other
deriving DecidableEq, Repr

/-- abstract accumulator: result type read? what is known about the first collected operand? lower bound on their number -/
structure Abs where
  rt : Bool
  hd : Hd
  n : Nat
deriving DecidableEq, Repr

def headIdRef (G : Tables) : List Operand → Bool
  | .w v _ :: _ => v == G.vIdRef
  | _ => false

/-- concretisation -/
def R (G : Tables) (s : Abs) (a : Acc) : Prop :=
  (s.rt = true → a.rtype.isSome = true) ∧ (s.hd = .idref → headIdRef G a.ops = true) ∧
  (s.hd = .empty → a.ops = []) ∧ s.n ≤ a.ops.length

/-- what the first operand of a kind looks like: `IdRef` iff its first element is the raw-word `IdRef` element -/
def kindHead (G : Tables) (k : Nat) : Hd :=
  match G.kindActs[k]? with
  | some (.elems (e :: _)) => if e.variant == G.vIdRef && e.dec == 2 then .idref else .other
  | _ => .other

def bump (h new : Hd) : Hd := if h = .empty then new else h

/-- one `match loperand.kind` arm, abstractly; `none` = an `assert!`/`expect`/index/`panic!()` could fire -/
def absStep (G : Tables) (opcode k : Nat) (s : Abs) : Option Abs :=
  if k == G.kIdResultType then some { s with rt := true }
  else if k == G.kIdResult then some s
  else if k == G.kCtxNumber then
    if (opcode == G.opConstant || opcode == G.opSpecConstant) && s.rt then some { s with hd := bump s.hd .other, n := s.n + 1 } else none
  else if k == G.kPairLitId then
    if opcode == G.opSwitch && decide (s.hd = .idref) then some { s with n := s.n + 2 } else none
  else if k == G.kSpecOp then some { s with hd := bump s.hd .other, n := s.n + 1 }
  else if kindOk G k then some { s with hd := bump s.hd (kindHead G k), n := s.n + 1 }
  else none

theorem headIdRef_append (G : Tables) (xs ys : List Operand) (h : headIdRef G xs = true) : headIdRef G (xs ++ ys) = true := by
  cases xs with
  | nil => simp [headIdRef] at h
  | cons x t => cases x <;> simp_all [headIdRef]

theorem R_append (G : Tables) (s : Abs) (a : Acc) (os : List Operand) (new : Hd) (hR : R G s a) (hne : os ≠ [])
    (hnew : new = .idref → headIdRef G os = true) (hnn : new ≠ .empty) (m : Nat) (hm : m ≤ os.length) (hm1 : 1 ≤ m) :
    R G { s with hd := bump s.hd new, n := s.n + m } { a with ops := a.ops ++ os } := by
  obtain ⟨h1, h2, h3, h4⟩ := hR
  refine ⟨h1, ?_, ?_, ?_⟩
  · intro hb
    simp only [bump] at hb
    by_cases he : s.hd = .empty
    · simp only [he, if_true] at hb
      rw [h3 he, List.nil_append]; exact hnew hb
    · simp only [he, if_false] at hb
      exact headIdRef_append G _ _ (h2 hb)
  · intro hb
    simp only [bump] at hb
    by_cases he : s.hd = .empty
    · simp only [he, if_true] at hb; exact absurd hb hnn
    · simp only [he, if_false] at hb
  · simp only [List.length_append]; omega

/-- a successful `parse_operand` of a kind whose abstract head is `IdRef` starts with an `IdRef` operand -/
theorem parseOperand_head (G : Tables) (k : Nat) (d : DState) (hh : kindHead G k = .idref) (os : List Operand)
    (hok : (parseOperand G k d).1 = .ok os) : headIdRef G os = true := by
  unfold kindHead at hh
  unfold parseOperand at hok
  cases ha : G.kindActs[k]? with
  | none => rw [ha] at hh; cases hh
  | some act =>
    rw [ha] at hh hok
    cases act with
    | panics => cases hh
    | maskParams e rows => cases hh
    | enumParams e rows => cases hh
    | elems es =>
      cases es with
      | nil => cases hh
      | cons e es =>
        dsimp only at hh hok
        by_cases hc : (e.variant == G.vIdRef && e.dec == 2) = true
        · simp only [Bool.and_eq_true, beq_iff_eq] at hc
          unfold decodeElems at hok
          unfold decodeElem at hok
          have b0 : (e.dec == 0) = false := by rw [hc.2]; rfl
          have b1 : (e.dec == 1) = false := by rw [hc.2]; rfl
          have b2 : (e.dec == 2) = true := by rw [hc.2]; rfl
          simp only [b0, b1, b2, Bool.false_eq_true, if_false, if_true] at hok
          rcases word_spec d with ⟨_, hw⟩ | ⟨_, _, hw⟩ | ⟨_, _, hw⟩ <;> rw [hw] at hok
          · cases hok
          · dsimp only at hok
            cases hr2 : decodeElems G es { bytes := d.bytes, offset := d.offset + 4, limit := Option.map (fun x => x - 1) d.limit } with
            | mk r2 d2 =>
              rw [hr2] at hok
              cases r2 with
              | ok os' => cases hok; simp [headIdRef, hc.1]
              | err x => cases hok
              | panic s => cases hok
          · cases hok
        · simp only [hc, Bool.false_eq_true, if_false] at hh; cases hh

section One
variable (G : Tables) (hc : coreKindsOk G = true) (τ : Tracker) (idx opcode : Nat)
include hc

/-- soundness of one abstract step -/
theorem parseOne_safe (k : Nat) (a : Acc) (d : DState) (l : Nat) (s s1 : Abs) (hR : R G s a)
    (hs1 : absStep G opcode k s = some s1) (hi : Inv d) (hs : Small d) (hl : d.limit = some l) :
    Safe d (parseOne G τ idx opcode k a d) ∧ Prog d (parseOne G τ idx opcode k a d) ∧
    (∀ a1, (parseOne G τ idx opcode k a d).1 = .ok a1 → R G s1 a1) := by
  unfold absStep at hs1
  unfold parseOne
  by_cases k1 : (k == G.kIdResultType) = true
  · simp only [k1, if_true] at hs1 ⊢
    cases hs1
    have f := word_frame d
    rcases word_spec d with ⟨_, hw⟩ | ⟨_, _, hw⟩ | ⟨_, _, hw⟩ <;> rw [hw] at f ⊢
    · exact ⟨⟨f, by simp⟩, (by intro a h; cases h), (by intro a h; cases h)⟩
    · refine ⟨⟨f, by simp⟩, (by intro a _; simp), ?_⟩
      intro a1 h; cases h
      exact ⟨fun _ => rfl, hR.2.1, hR.2.2.1, hR.2.2.2⟩
    · exact ⟨⟨f, by simp⟩, (by intro a h; cases h), (by intro a h; cases h)⟩
  · simp only [k1, Bool.false_eq_true, if_false] at hs1 ⊢
    by_cases k2 : (k == G.kIdResult) = true
    · simp only [k2, if_true] at hs1 ⊢
      cases hs1
      have f := word_frame d
      rcases word_spec d with ⟨_, hw⟩ | ⟨_, _, hw⟩ | ⟨_, _, hw⟩ <;> rw [hw] at f ⊢
      · exact ⟨⟨f, by simp⟩, (by intro a h; cases h), (by intro a h; cases h)⟩
      · refine ⟨⟨f, by simp⟩, (by intro a _; simp), ?_⟩
        intro a1 h; cases h
        exact hR
      · exact ⟨⟨f, by simp⟩, (by intro a h; cases h), (by intro a h; cases h)⟩
    · simp only [k2, Bool.false_eq_true, if_false] at hs1 ⊢
      by_cases k3 : (k == G.kCtxNumber) = true
      · simp only [k3, if_true] at hs1 ⊢
        split at hs1
        · rename_i hcond
          cases hs1
          simp only [Bool.and_eq_true] at hcond
          have hop : (!(opcode == G.opConstant || opcode == G.opSpecConstant)) = false := by simp [hcond.1]
          simp only [hop, Bool.false_eq_true, if_false]
          have hrt := hR.1 hcond.2
          cases hrt' : a.rtype with
          | none => rw [hrt'] at hrt; cases hrt
          | some t =>
            dsimp only
            obtain ⟨⟨f, np⟩, pr⟩ := parseLiteral_safe G τ idx t d
            cases hr : parseLiteral G τ idx t d with
            | mk r d1 =>
              rw [hr] at f np pr
              cases r with
              | panic s => exact absurd rfl (np s)
              | err x => exact ⟨⟨f, by simp⟩, (by intro a h; cases h), (by intro a h; cases h)⟩
              | ok o =>
                refine ⟨⟨f, by simp⟩, (by intro a1 _; exact pr o rfl), ?_⟩
                intro a1 h; cases h
                have h := R_append G s a [o] .other hR (by simp) (by intro h; cases h) (by intro h; cases h) 1 (by simp) (Nat.le_refl 1)
                rw [hrt'] at h
                exact h
        · cases hs1
      · simp only [k3, Bool.false_eq_true, if_false] at hs1 ⊢
        by_cases k4 : (k == G.kPairLitId) = true
        · simp only [k4, if_true] at hs1 ⊢
          split at hs1
          · rename_i hcond
            cases hs1
            simp only [Bool.and_eq_true, decide_eq_true_eq] at hcond
            have hop : (opcode != G.opSwitch) = false := by rw [bne, hcond.1]; rfl
            simp only [hop, Bool.false_eq_true, if_false]
            have hhd := hR.2.1 hcond.2
            cases hops : a.ops with
            | nil => rw [hops] at hhd; simp [headIdRef] at hhd
            | cons o0 tl =>
              rw [hops] at hhd
              cases o0 with
              | q v => simp [headIdRef] at hhd
              | s b => simp [headIdRef] at hhd
              | w v sel =>
                have hv : (v != G.vIdRef) = false := by simpa [headIdRef] using hhd
                simp only [hv, Bool.false_eq_true, if_false]
                obtain ⟨⟨f, np⟩, pr⟩ := parseLiteral_safe G τ idx sel d
                cases hr : parseLiteral G τ idx sel d with
                | mk r d1 =>
                  rw [hr] at f np pr
                  cases r with
                  | panic s => exact absurd rfl (np s)
                  | err x => exact ⟨⟨f, by simp⟩, (by intro a h; cases h), (by intro a h; cases h)⟩
                  | ok lit =>
                    dsimp only
                    have p1 : d.offset + 4 ≤ d1.offset := pr lit rfl
                    have f2 := word_frame d1
                    rcases word_spec d1 with ⟨_, hw⟩ | ⟨_, _, hw⟩ | ⟨_, _, hw⟩ <;> rw [hw] at f2 ⊢
                    · exact ⟨⟨f.trans f2, by simp⟩, (by intro a h; cases h), (by intro a h; cases h)⟩
                    · refine ⟨⟨f.trans f2, by simp⟩, (by intro a1 _; simp; omega), ?_⟩
                      intro a1 h; cases h
                      have := R_append G s a [lit, .w G.vIdRef (le32 d1.bytes d1.offset)] .other hR (by simp)
                        (by intro h; cases h) (by intro h; cases h) 2 (by simp) (by omega)
                      have hb : bump s.hd .other = s.hd := by simp [bump, hcond.2]
                      rw [hb] at this
                      rw [← hops]
                      exact this
                    · exact ⟨⟨f.trans f2, by simp⟩, (by intro a h; cases h), (by intro a h; cases h)⟩
          · cases hs1
        · simp only [k4, Bool.false_eq_true, if_false] at hs1 ⊢
          by_cases k5 : (k == G.kSpecOp) = true
          · simp only [k5, if_true] at hs1 ⊢
            cases hs1
            obtain ⟨⟨f, np⟩, pr, ne⟩ := parseSpecConstantOp_safe G hc idx d l hi hs hl
            cases hr : parseSpecConstantOp G idx d with
            | mk r d1 =>
              rw [hr] at f np pr ne
              cases r with
              | panic s => exact absurd rfl (np s)
              | err x => exact ⟨⟨f, by simp⟩, (by intro a h; cases h), (by intro a h; cases h)⟩
              | ok os =>
                refine ⟨⟨f, by simp⟩, (by intro a1 _; exact pr os rfl), ?_⟩
                intro a1 h; cases h
                have hlen : 1 ≤ os.length := by
                  cases os with
                  | nil => exact absurd rfl (ne [] rfl)
                  | cons _ _ => simp
                exact R_append G s a os .other hR (ne os rfl) (by intro h; cases h) (by intro h; cases h) 1 hlen (Nat.le_refl 1)
          · simp only [k5, Bool.false_eq_true, if_false] at hs1 ⊢
            split at hs1
            · rename_i hk
              cases hs1
              obtain ⟨⟨f, np⟩, pr, ne⟩ := parseOperand_safe G k d hi hs hk
              have hhead := parseOperand_head G k d
              cases hr : parseOperand G k d with
              | mk r d1 =>
                rw [hr] at f np pr ne hhead
                cases r with
                | panic s => exact absurd rfl (np s)
                | err x => exact ⟨⟨f, by simp⟩, (by intro a h; cases h), (by intro a h; cases h)⟩
                | ok os =>
                  refine ⟨⟨f, by simp⟩, (by intro a1 _; exact pr os rfl), ?_⟩
                  intro a1 h; cases h
                  have hlen : 1 ≤ os.length := by
                    cases os with
                    | nil => exact absurd rfl (ne [] rfl)
                    | cons _ _ => simp
                  have hne : kindHead G k ≠ .empty := by
                    unfold kindHead; split
                    · split <;> (intro h; cases h)
                    · intro h; cases h
                  exact R_append G s a os (kindHead G k) hR (ne os rfl) (fun h => hhead h os rfl) hne 1 hlen (Nat.le_refl 1)
            · cases hs1

end One

/-! ### the operand loop -/

/-- what is known after "maybe one more step" -/
def weaken (s s1 : Abs) : Abs :=
  { rt := s.rt && s1.rt, hd := if s.hd = s1.hd then s.hd else .other, n := min s.n s1.n }

theorem R_weaken_left (G : Tables) (s s1 : Abs) (a : Acc) (h : R G s a) : R G (weaken s s1) a := by
  obtain ⟨h1, h2, h3, h4⟩ := h
  refine ⟨?_, ?_, ?_, ?_⟩
  · intro hb; simp only [weaken, Bool.and_eq_true] at hb; exact h1 hb.1
  · intro hb; simp only [weaken] at hb; split at hb
    · exact h2 hb
    · cases hb
  · intro hb; simp only [weaken] at hb; split at hb
    · exact h3 hb
    · cases hb
  · simp only [weaken]; omega

theorem R_weaken_right (G : Tables) (s s1 : Abs) (a : Acc) (h : R G s1 a) : R G (weaken s s1) a := by
  obtain ⟨h1, h2, h3, h4⟩ := h
  refine ⟨?_, ?_, ?_, ?_⟩
  · intro hb; simp only [weaken, Bool.and_eq_true] at hb; exact h1 hb.2
  · intro hb; simp only [weaken] at hb; split at hb
    · rename_i he; exact h2 (he ▸ hb)
    · cases hb
  · intro hb; simp only [weaken] at hb; split at hb
    · rename_i he; exact h3 (he ▸ hb)
    · cases hb
  · simp only [weaken]; omega

/-- abstract `parse_operands`: `some n` = no panic site is reachable and every successful exit has collected at least
`n` operands. An optional or variadic operand is entered from the weakened state, which must be stable. -/
def absLoop (G : Tables) (opcode : Nat) : List (Nat × Nat) → Abs → Option Nat
  | [], s => some s.n
  | (k, q) :: rest, s =>
    match absStep G opcode k s with
    | none => none
    | some s1 =>
      if q == 0 then absLoop G opcode rest s1
      else
        match absStep G opcode k (weaken s s1) with
        | none => none
        | some w1 =>
          if weaken (weaken s s1) w1 = weaken s s1 then (absLoop G opcode rest (weaken s s1)).map (fun n => min n (weaken s s1).n)
          else none

/-- re-entering a variadic operand from its stable state gives the same verdict -/
theorem absLoop_stable (G : Tables) (opcode k q : Nat) (rest : List (Nat × Nat)) (s s1 w1 : Abs) (n : Nat)
    (hq : (q == 0) = false) (h1 : absStep G opcode k s = some s1) (h2 : absStep G opcode k (weaken s s1) = some w1)
    (h3 : weaken (weaken s s1) w1 = weaken s s1)
    (h4 : (absLoop G opcode rest (weaken s s1)).map (fun n => min n (weaken s s1).n) = some n) :
    absLoop G opcode ((k, q) :: rest) (weaken s s1) = some n := by
  simp only [absLoop, h2, hq, Bool.false_eq_true, if_false, h3, if_true]
  exact h4

section Loop
variable (G : Tables) (hc : coreKindsOk G = true) (τ : Tracker) (idx opcode : Nat)
include hc

theorem loop_safe : ∀ (fuel : Nat) (ops : List (Nat × Nat)) (a : Acc) (d : DState) (l : Nat) (s : Abs) (n : Nat),
    R G s a → absLoop G opcode ops s = some n → Inv d → Small d → d.limit = some l → ops.length + l < fuel →
    Safe d (parseOperandsLoop G τ idx opcode fuel ops a d) ∧
    (∀ a', (parseOperandsLoop G τ idx opcode fuel ops a d).1 = .ok a' → n ≤ a'.ops.length)
  | 0, _, _, _, _, _, _, _, _, _, _, _, h => absurd h (Nat.not_lt_zero _)
  | fuel + 1, [], a, d, l, s, n, hR, habs, _, _, _, _ => by
    simp only [absLoop] at habs
    cases habs
    simp only [parseOperandsLoop]
    exact ⟨⟨Frame.refl d, by simp⟩, by intro a' h; cases h; exact hR.2.2.2⟩
  | fuel + 1, (k, q) :: rest, a, d, l, s, n, hR, habs, hi, hs, hl, hf => by
    simp only [absLoop] at habs
    cases hs1 : absStep G opcode k s with
    | none => rw [hs1] at habs; cases habs
    | some s1 =>
      rw [hs1] at habs
      dsimp only at habs
      unfold parseOperandsLoop
      by_cases hlr : d.limitReached = true
      · -- the limit is exhausted
        simp only [hlr, Bool.not_true, Bool.false_eq_true, if_false]
        by_cases hq : (q == 0) = true
        · simp only [hq, if_true]; exact ⟨⟨Frame.refl d, by simp⟩, by intro a' h; cases h⟩
        · simp only [hq, Bool.false_eq_true, if_false] at habs ⊢
          refine ⟨⟨Frame.refl d, by simp⟩, ?_⟩
          intro a' h; cases h
          cases hw : absStep G opcode k (weaken s s1) with
          | none => rw [hw] at habs; cases habs
          | some w1 =>
            rw [hw] at habs
            dsimp only at habs
            split at habs
            · cases hm : absLoop G opcode rest (weaken s s1) with
              | none => rw [hm] at habs; cases habs
              | some m =>
                rw [hm] at habs
                simp only [Option.map_some, Option.some.injEq] at habs
                have := hR.2.2.2
                simp only [weaken] at habs
                omega
            · cases habs
      · have hlr' : d.limitReached = false := by simpa using hlr
        simp only [hlr', Bool.not_false, if_true]
        obtain ⟨⟨f1, np1⟩, pr1, hR1⟩ := parseOne_safe G hc τ idx opcode k a d l s s1 hR hs1 hi hs hl
        cases hr : parseOne G τ idx opcode k a d with
        | mk r d1 =>
          rw [hr] at f1 np1 pr1 hR1
          cases r with
          | panic site => exact absurd rfl (np1 site)
          | err x => exact ⟨⟨f1, by simp⟩, by intro a' h; cases h⟩
          | ok a1 =>
            have hRa1 := hR1 a1 rfl
            obtain ⟨l1, hl1, lt1⟩ := limit_decreases f1 l hl (pr1 a1 rfl)
            dsimp only
            by_cases hq0 : (q == 0) = true
            · have hq2 : (q == 2) = false := by
                rw [beq_iff_eq] at hq0; rw [hq0]; rfl
              simp only [hq0, if_true] at habs
              simp only [hq2, Bool.false_eq_true, if_false]
              obtain ⟨⟨f2, np2⟩, hn2⟩ := loop_safe fuel rest a1 d1 l1 s1 n hRa1 habs (f1.inv hi) (small_of_frame f1 hs) hl1
                (by simp only [List.length_cons] at hf; omega)
              exact ⟨⟨f1.trans f2, np2⟩, hn2⟩
            · simp only [hq0, Bool.false_eq_true, if_false] at habs
              cases hw : absStep G opcode k (weaken s s1) with
              | none => rw [hw] at habs; cases habs
              | some w1 =>
                rw [hw] at habs
                dsimp only at habs
                split at habs
                · rename_i hstab
                  have hRw := R_weaken_right G s s1 a1 hRa1
                  by_cases hq2 : (q == 2) = true
                  · simp only [hq2, if_true]
                    have hq0' : (q == 0) = false := by simpa using hq0
                    have hagain := absLoop_stable G opcode k q rest s s1 w1 n hq0' hs1 hw hstab habs
                    obtain ⟨⟨f2, np2⟩, hn2⟩ := loop_safe fuel ((k, q) :: rest) a1 d1 l1 (weaken s s1) n hRw hagain (f1.inv hi)
                      (small_of_frame f1 hs) hl1 (by simp only [List.length_cons] at hf ⊢; omega)
                    exact ⟨⟨f1.trans f2, np2⟩, hn2⟩
                  · simp only [hq2, Bool.false_eq_true, if_false]
                    cases hm : absLoop G opcode rest (weaken s s1) with
                    | none => rw [hm] at habs; cases habs
                    | some m =>
                      rw [hm] at habs
                      simp only [Option.map_some, Option.some.injEq] at habs
                      obtain ⟨⟨f2, np2⟩, hn2⟩ := loop_safe fuel rest a1 d1 l1 (weaken s s1) m hRw hm (f1.inv hi)
                        (small_of_frame f1 hs) hl1 (by simp only [List.length_cons] at hf; omega)
                      refine ⟨⟨f1.trans f2, np2⟩, ?_⟩
                      intro a' h
                      have := hn2 a' h
                      omega
                · cases habs

end Loop

/-! ### instructions, the parse loop, the whole parse -/

/-- an entry is safe: no panic site is reachable while parsing its operands, and if it is `OpTypeInt` / `OpTypeFloat`
the type tracker finds the operands it indexes -/
def entrySafe (G : Tables) (e : Entry) : Bool :=
  match absLoop G e.opcode e.ops ⟨false, .empty, 0⟩ with
  | none => false
  | some n => (e.opcode != G.opTypeInt || decide (2 ≤ n)) && (e.opcode != G.opTypeFloat || decide (1 ≤ n))

/-- **the table check of C04**, decided by the kernel on the tables regenerated from the working tree -/
def tablesSafe (G : Tables) : Bool := coreKindsOk G && G.core.all (entrySafe G)

theorem track_some (T : TTables) (τ : Tracker) (i : Inst)
    (h2 : i.opcode = T.opTypeInt → 2 ≤ i.operands.length) (h1 : i.opcode = T.opTypeFloat → 1 ≤ i.operands.length) :
    (Tracker.track T τ i).isSome = true := by
  unfold Tracker.track
  split
  · rfl
  · split
    · split
      · rename_i hop
        have := h2 (by simpa using hop)
        cases ho : i.operands with
        | nil => rw [ho] at this; simp at this
        | cons o0 t =>
          cases t with
          | nil => rw [ho] at this; simp at this
          | cons o1 t2 =>
            dsimp only
            split
            · split <;> rfl
            · rfl
      · split
        · rename_i hop
          have := h1 (by simpa using hop)
          cases ho : i.operands with
          | nil => rw [ho] at this; simp at this
          | cons o0 t =>
            dsimp only
            split
            · split <;> rfl
            · rfl
        · rfl
    · split <;> rfl

theorem parseHeader_state (G : Tables) (d : DState) :
    (parseHeader G d).2 = (words 5 d).2 ∧ ∀ s, (parseHeader G d).1 ≠ .panic s := by
  obtain ⟨_, np, _⟩ := words_spec 5 d
  unfold parseHeader
  cases hr : words 5 d with
  | mk r d1 =>
    rw [hr] at np
    cases r with
    | panic site => exact absurd rfl (np site)
    | err e => exact ⟨rfl, by simp⟩
    | ok ws =>
      dsimp only
      split
      · split <;> exact ⟨rfl, by simp⟩
      · exact ⟨rfl, by simp⟩

section Inst
variable (G : Tables) (hT : tablesSafe G = true)
include hT

/-- **C04 (one instruction).** From a state inside the buffer with no limit set, `parse_inst` never panics; it leaves the
bytes alone, never moves backwards, stays inside the buffer, and on success has consumed at least one word, has cleared
the limit again, and delivers an instruction the type tracker can digest. -/
theorem parseInst_safe (τ : Tracker) (idx : Nat) (d : DState) (hi : Inv d) (hs : Small d) (hl : d.limit = none) :
    (∀ s, (parseInst G τ idx d).1 ≠ .panic s) ∧ (parseInst G τ idx d).2.bytes = d.bytes ∧
    Inv (parseInst G τ idx d).2 ∧
    (∀ i, (parseInst G τ idx d).1 = .ok i → d.offset + 4 ≤ (parseInst G τ idx d).2.offset ∧
      (parseInst G τ idx d).2.limit = none ∧ (Tracker.track G.tt τ i).isSome = true) := by
  simp only [tablesSafe, Bool.and_eq_true, List.all_eq_true] at hT
  obtain ⟨hc, hent⟩ := hT
  unfold parseInst
  have f := word_frame d
  rcases word_spec d with ⟨h0, _⟩ | ⟨_, hb, hw⟩ | ⟨_, _, hw⟩
  · rw [hl] at h0; cases h0
  · rw [hw] at f ⊢
    dsimp only
    split
    · exact ⟨by simp, rfl, f.inv hi, by intro i h; cases h⟩
    · rename_i hwc
      cases hlook : lookupOpcode G.core (le32 d.bytes d.offset % 65536) with
      | none => exact ⟨by simp, rfl, f.inv hi, by intro i h; cases h⟩
      | some e =>
        dsimp only
        have hmem := (lookupOpcode_some _ _ _ hlook).1
        have hes := hent e hmem
        unfold entrySafe at hes
        cases habs : absLoop G e.opcode e.ops ⟨false, .empty, 0⟩ with
        | none => rw [habs] at hes; cases hes
        | some n =>
          rw [habs] at hes
          simp only [Bool.and_eq_true, Bool.or_eq_true, bne_iff_ne, ne_eq, decide_eq_true_eq] at hes
          generalize hwc' : le32 d.bytes d.offset / 65536 = wc at hwc ⊢
          have hwc0 : wc ≠ 0 := by simpa using hwc
          let d2 : DState := DState.setLimit (wc - 1) { bytes := d.bytes, offset := d.offset + 4, limit := Option.map (fun x => x - 1) d.limit }
          have hi2 : Inv d2 := f.inv hi
          have hs2 : Small d2 := hs
          have hR0 : R G ⟨false, .empty, 0⟩ ⟨none, none, []⟩ :=
            ⟨(by intro h; cases h), (by intro h; cases h), fun _ => rfl, Nat.le_refl 0⟩
          obtain ⟨⟨f3, np3⟩, hn3⟩ := loop_safe G hc τ idx e.opcode (wc + e.ops.length + 1) e.ops ⟨none, none, []⟩ d2 (wc - 1)
            ⟨false, .empty, 0⟩ n hR0 habs hi2 hs2 rfl (by omega)
          cases hr : parseOperandsLoop G τ idx e.opcode (wc + e.ops.length + 1) e.ops ⟨none, none, []⟩ d2 with
          | mk r d3 =>
            rw [hr] at f3 np3 hn3
            have hb3 : d3.bytes = d.bytes := f3.bytes
            have hm3 : d.offset + 4 ≤ d3.offset := f3.mono
            have hi3 : Inv d3 := f3.inv hi2
            cases r with
            | panic site => exact absurd rfl (np3 site)
            | err x => exact ⟨by simp, hb3, hi3, by intro i h; cases h⟩
            | ok a =>
              dsimp only
              split
              · exact ⟨by simp, hb3, hi3, by intro i h; cases h⟩
              · refine ⟨by simp, hb3, hi3, ?_⟩
                intro i h
                cases h
                refine ⟨hm3, rfl, ?_⟩
                have hlen := hn3 a rfl
                apply track_some
                · intro hop
                  rcases hes.1 with h | h
                  · exact absurd hop h
                  · exact Nat.le_trans h hlen
                · intro hop
                  rcases hes.2 with h | h
                  · exact absurd hop h
                  · exact Nat.le_trans h hlen
  · rw [hw] at f ⊢
    exact ⟨by simp, rfl, f.inv hi, by intro i h; cases h⟩

theorem parseLoop_safe (script : Nat → Action) : ∀ (fuel : Nat) (τ : Tracker) (k idx : Nat) (d : DState) (tr : List Ev),
    Inv d → Small d → d.limit = none → d.bytes.length - d.offset < fuel →
    ∀ s, (parseLoop G script fuel τ k idx d tr).result ≠ .panic s
  | 0, _, _, _, _, _, _, _, _, h => absurd h (Nat.not_lt_zero _)
  | fuel + 1, τ, k, idx, d, tr, hi, hs, hl, hf => by
    obtain ⟨np, hb, hi1, hok⟩ := parseInst_safe G hT τ (idx + 1) d hi hs hl
    unfold parseLoop
    cases hr : parseInst G τ (idx + 1) d with
    | mk r d1 =>
      rw [hr] at np hb hi1 hok
      cases r with
      | panic site => exact absurd rfl (np site)
      | err e =>
        cases e with
        | complete => dsimp only; split <;> simp
        | wordCountZero _ _ => simp
        | opcodeUnknown _ _ _ => simp
        | operandExpected _ _ => simp
        | operandExceeded _ _ => simp
        | operandError _ => simp
        | typeUnsupported _ _ => simp
        | specConstantOpIntegerIncorrect _ _ => simp
      | ok i =>
        obtain ⟨hprog, hl1, htr⟩ := hok i rfl
        dsimp only
        cases ht : Tracker.track G.tt τ i with
        | none => rw [ht] at htr; cases htr
        | some τ1 =>
          dsimp only
          split
          · simp
          · have hs1 : Small d1 := by unfold Small at *; rw [hb]; exact hs
            have hi1' : d1.offset ≤ d.bytes.length := by unfold C11.Inv at hi1; rw [hb] at hi1; exact hi1
            exact parseLoop_safe script fuel τ1 (k + 1) (idx + 1) d1 _ hi1 hs1 hl1 (by rw [hb]; simp at hprog; omega)

/-- **C04 (parser).** For every byte string a Rust slice can hold and every consumer behaviour, `Parser::parse`
returns `Ok` or an error value: no `assert!`, `expect`, index, `panic!()` or arithmetic overflow is reachable. -/
theorem C04_parse (script : Nat → Action) (bytes : List Nat) (hs : bytes.length < 2 ^ 63) :
    ∀ s, (parse G script bytes).result ≠ .panic s := by
  unfold parse
  split
  · simp
  · obtain ⟨f, _, _⟩ := words_spec 5 (DState.new bytes)
    have hi0 : C11.Inv (DState.new bytes) := by unfold C11.Inv DState.new; simp
    obtain ⟨hst, hnp⟩ := parseHeader_state G (DState.new bytes)
    cases hp : parseHeader G (DState.new bytes) with
    | mk r d1 =>
      rw [hp] at hst hnp
      dsimp only at hst
      rw [← hst] at f
      cases r with
      | panic site => exact absurd rfl (hnp site)
      | err e => simp
      | ok h =>
        dsimp only
        split
        · simp
        · have hb : d1.bytes = bytes := f.bytes
          exact parseLoop_safe G hT script (bytes.length + 1) [] 2 0 d1 _ (f.inv hi0) (by unfold Small; rw [hb]; exact hs)
            (f.unlimited rfl) (by rw [hb]; omega)

end Inst

/-! ### loading: the parser driving the loader -/

theorem feed_some (L : LTables) : ∀ (evs : List Ev) (st : LState),
    (∀ site, feed L (some st) evs ≠ .error (.panic site)) ∧ feed L (some st) evs ≠ .ok none
  | [], st => by simp [feed]
  | .init :: t, st => by simp only [feed]; exact feed_some L t st
  | .header h :: t, st => by simp only [feed]; exact feed_some L t _
  | .inst i :: t, st => by
    simp only [feed]
    cases hstep : st.step L i with
    | ok st' => exact feed_some L t st'
    | error e => simp
  | .fin :: t, st => by
    simp only [feed]
    cases hfin : st.finalize with
    | ok m => exact feed_some L t st
    | error e => simp

/-- **C04 (loader).** `load_bytes` returns a module or an error value for every byte string -/
theorem C04_load (G : Tables) (hT : tablesSafe G = true) (L : LTables) (bytes : List Nat) (hs : bytes.length < 2 ^ 63) :
    ∀ site, loadBytes G L bytes ≠ .error (.panic site) := by
  intro site
  have hnp := C04_parse G hT (fun _ => .continue_) bytes hs
  have hspec := Rspirv.Props.C14.C14 G (fun _ => .continue_) bytes
  unfold loadBytes
  generalize parse G (fun _ => .continue_) bytes = r at hnp hspec
  rcases hspec with ⟨s, hs⟩ | good
  · exact absurd hs (hnp s)
  · have hfinal : ∀ st : LState, loadResult r.result (some st) ≠ .error (.panic site) := by
      intro st
      unfold loadResult
      cases hres : r.result with
      | ok u => simp
      | err e => simp
      | panic s' => exact absurd hres (hnp s')
    have key : ∀ (rest : List Ev) (h : Header), r.trace = .init :: .header h :: rest →
        loadWith L r ≠ .error (.panic site) := by
      intro rest h htr
      unfold loadWith
      rw [htr]
      simp only [feed]
      obtain ⟨h1, h2⟩ := feed_some L rest (LState.start h)
      cases hf : feed L (some (LState.start h)) rest with
      | error e => intro hc; cases hc; exact h1 site hf
      | ok s =>
        cases s with
        | none => exact absurd hf h2
        | some st => exact hfinal st
    have hshape := good.shape
    cases htr : r.trace with
    | nil => rw [htr] at hshape; cases hshape
    | cons e0 t0 =>
      rw [htr] at hshape
      cases hshape with
      | init =>
        have hfin : Ev.fin ∉ r.trace := by rw [htr]; simp
        unfold loadWith
        rw [htr]
        simp only [feed]
        unfold loadResult
        cases hres : r.result with
        | ok u => exact absurd (good.obeys.2.2.2.2 hres) hfin
        | err e => simp
        | panic s' => exact absurd hres (hnp s')
      | insts h is => exact key _ h htr
      | fin h is => exact key _ h htr

/-- **C20 / C04 (command line tool).** `rspirv-dis` terminates normally on every file content: it prints the library's
disassembly of the loaded module followed by a newline, or the message of the loading error followed by a newline. -/
theorem C20_main (G : Tables) (hT : tablesSafe G = true) (L : LTables) (D : DisTables) (bytes : List Nat)
    (hs : bytes.length < 2 ^ 63) :
    (∃ m, loadBytes G L bytes = .ok m ∧ disMain G L D bytes = some (disasText D m ++ "\n")) ∨
    (∃ e msg, loadBytes G L bytes = .error e ∧ loadErrText G.core bytes e = some msg ∧
      disMain G L D bytes = some (msg ++ "\n")) := by
  have hnp := C04_load G hT L bytes hs
  unfold disMain
  cases hl : loadBytes G L bytes with
  | ok m => exact Or.inl ⟨m, rfl, rfl⟩
  | error e =>
    right
    cases e with
    | parse pe => exact ⟨_, _, rfl, rfl, rfl⟩
    | loader le => exact ⟨_, _, rfl, rfl, rfl⟩
    | panic site => exact absurd hl (hnp site)

/-! ### the tables of the working tree -/

open Rspirv.Instances

/-- kernel evaluation of the abstract interpretation over all regenerated grammar entries and operand kinds -/
theorem tables_safe : tablesSafe theTables = true := by decide +kernel

/-- **C04.** With the tables regenerated from the source: parsing any byte string with any consumer never panics -/
theorem C04 (script : Nat → Action) (bytes : List Nat) (hs : bytes.length < 2 ^ 63) :
    ∀ s, (parse theTables script bytes).result ≠ .panic s :=
  C04_parse theTables tables_safe script bytes hs

/-- **C04 (loading).** `load_bytes` never panics -/
theorem C04_loader (bytes : List Nat) (hs : bytes.length < 2 ^ 63) :
    ∀ site, loadBytes theTables theLTables bytes ≠ .error (.panic site) :=
  C04_load theTables tables_safe theLTables bytes hs

/-- **C20.** `rspirv-dis` on any file content: normal termination, output = disassembly or error message, newline-terminated -/
theorem C20 (bytes : List Nat) (hs : bytes.length < 2 ^ 63) :
    (∃ m, loadBytes theTables theLTables bytes = .ok m ∧
      disMain theTables theLTables theDTables bytes = some (disasText theDTables m ++ "\n")) ∨
    (∃ e msg, loadBytes theTables theLTables bytes = .error e ∧ loadErrText theTables.core bytes e = some msg ∧
      disMain theTables theLTables theDTables bytes = some (msg ++ "\n")) :=
  C20_main theTables tables_safe theLTables theDTables bytes hs

/-! ### non-vacuity and teeth of the table check -/

/-- the check refuses a table in which `OpSwitch`'s literal/label pairs come before the selector -/
example : absLoop theTables theTables.opSwitch [(theTables.kPairLitId, 2)] ⟨false, .empty, 0⟩ = none := by decide +kernel
/-- ... and a context dependent number in an instruction without result type -/
example : absLoop theTables theTables.opConstant [(theTables.kIdResult, 0), (theTables.kCtxNumber, 0)] ⟨false, .empty, 0⟩ = none := by
  decide +kernel
example : absLoop theTables theTables.opTypeInt [(theTables.kIdResult, 0), (59, 0), (59, 0)] ⟨false, .empty, 0⟩ = some 2 := by
  decide +kernel

end Rspirv.Props.C04
