import Rspirv.Props.C03
/-!
# C03 — which kind of error the first malformed instruction gets (the first-word faults and surplus operands)

`C03_reject` says *where* a rejected binary is reported (instruction number, byte offset). Here: *which kind*, for the
faults that are decided by the first word of the instruction or by its declared extent:

* `parseInst_wc0` / `C03_kind_wc0`: word count zero → `WordCountZero(offset of that word, instruction number)`;
* `parseInst_unknown` / `C03_kind_unknown`: non-zero word count, opcode number not in the grammar table →
  `OpcodeUnknown(offset of that word, instruction number, opcode number)`;
* `parseInst_surplus`: known opcode, the logical operands recognised but operand words left over inside the declared
  extent → `OperandExceeded(offset of the first surplus word, instruction number)`.

Missing and undecodable operands (`OperandExpected`, `OperandError(..)`, …) are reported from inside the operand loop:
`Props/C03KindOp.lean` proves that a first malformed instruction with a non-zero word count and a known opcode always gets one of
these operand-level kinds; which of them a given operand fault gets is decided by the correspondence check and its oracle.
-/
namespace Rspirv.Props.C03Kind
open Rspirv Rspirv.Model Rspirv.Model.DState Rspirv.Props.C04 Rspirv.Props.C11 Rspirv.Props.ParserSpec Rspirv.Props.ParserErr Rspirv.Props.C03

variable {B : List Nat}

theorem sview_word (d : DState) (w0 : Nat) (t : List Nat) (hv : SView B d (w0 :: t)) :
    word d = (.ok w0, { d with offset := d.offset + 4 }) := by
  have hb := hv.bytes
  have hfits := hv.fits
  simp only [List.length_cons] at hfits
  rcases word_spec d with ⟨h0, _⟩ | ⟨_, _, hw⟩ | ⟨_, hb', _⟩
  · rw [hv.limit] at h0; cases h0
  · have h0 := hv.words 0 (by simp)
    simp only [Nat.mul_zero, Nat.add_zero, List.getD_eq_getElem?_getD, List.getElem?_cons_zero, Option.getD_some] at h0
    rw [hw, hb, h0, hv.limit]; rfl
  · rw [hb] at hb'; exact absurd (by omega) hb'

/-- word count zero -/
theorem parseInst_wc0 (G : Tables) (τ : Tracker) (idx : Nat) (d : DState) (w0 : Nat) (t : List Nat)
    (hv : SView B d (w0 :: t)) (h : w0 / 65536 = 0) :
    parseInst G τ idx d = (.err (.wordCountZero d.offset idx), { d with offset := d.offset + 4 }) := by
  unfold parseInst
  rw [sview_word d w0 t hv]
  simp [h]

/-- opcode number not in the grammar table -/
theorem parseInst_unknown (G : Tables) (τ : Tracker) (idx : Nat) (d : DState) (w0 : Nat) (t : List Nat)
    (hv : SView B d (w0 :: t)) (h : w0 / 65536 ≠ 0) (hl : lookupOpcode G.core (w0 % 65536) = none) :
    parseInst G τ idx d = (.err (.opcodeUnknown d.offset idx (w0 % 65536)), { d with offset := d.offset + 4 }) := by
  unfold parseInst
  rw [sview_word d w0 t hv]
  have : (w0 / 65536 == 0) = false := by simpa using h
  simp [this, hl]

/-- operand words left over inside the declared extent -/
theorem parseInst_surplus (G : Tables) (hc : coreKindsOk G = true) (τ : Tracker) (idx : Nat) (d : DState) (w0 : Nat)
    (t : List Nat) (hv : SView B d (w0 :: t)) (hfit : w0 / 65536 - 1 ≤ t.length) (h : w0 / 65536 ≠ 0) (ent : Entry)
    (hl : lookupOpcode G.core (w0 % 65536) = some ent) (a : Acc) (x : Nat) (xs : List Nat)
    (hs : Spec.loop G τ ent.opcode (w0 / 65536 + ent.ops.length + 1) ent.ops ⟨none, none, []⟩ (t.take (w0 / 65536 - 1)) =
      some (a, x :: xs)) :
    ∃ d3, parseInst G τ idx d = (.err (.operandExceeded d3.offset idx), d3) ∧
      d3.offset + 4 * (xs.length + 1) = d.offset + 4 * (w0 / 65536) := by
  have hb := hv.bytes
  have hfits := hv.fits
  simp only [List.length_cons] at hfits
  have hview : View B (d.offset + 4 + 4 * (w0 / 65536 - 1))
      (DState.setLimit (w0 / 65536 - 1) { d with offset := d.offset + 4 }) (t.take (w0 / 65536 - 1)) := by
    have hlen : (t.take (w0 / 65536 - 1)).length = w0 / 65536 - 1 := by rw [List.length_take]; omega
    refine ⟨hb, ?_, ?_, ?_, ?_, hv.bytesOk, hv.small⟩
    · simp [DState.setLimit, hlen]
    · simp only [DState.setLimit, hlen]
    · omega
    · intro k hk
      rw [hlen] at hk
      have := hv.words (k + 1) (by simp; omega)
      simp only [List.getD_eq_getElem?_getD, List.getElem?_cons_succ] at this
      simp only [DState.setLimit, List.getD_eq_getElem?_getD, List.getElem?_take, hk, if_true]
      rw [← this]
      congr 1
      omega
  have hloop := loop_ref G hc τ idx ent.opcode (w0 / 65536 + ent.ops.length + 1) ent.ops ⟨none, none, []⟩ _ _ hview
  rw [hs] at hloop
  obtain ⟨d3, hr, hv3⟩ := hloop.of_some
  refine ⟨d3, ?_, ?_⟩
  · unfold parseInst
    rw [sview_word d w0 t hv]
    have : (w0 / 65536 == 0) = false := by simpa using h
    simp only [this, Bool.false_eq_true, if_false, hl, hr, view_limitReached hv3, List.isEmpty_cons, Bool.not_false,
      if_true]
  · have hst := hv3.stop
    simp only [List.length_cons] at hst
    omega

/-- **C03 (kind, zero word count).** If the first instruction the recogniser does not accept starts with a word whose
word count is zero, the parse ends with `WordCountZero` carrying the byte offset of that word and the 1-based number of
that instruction. -/
theorem C03_kind_wc0 (G : Tables) (hT : tablesSafe G = true) (bytes : List Nat) (hb : ∀ b ∈ bytes, b < 256)
    (hs : bytes.length < 2 ^ 63) (h20 : 20 ≤ bytes.length) (hmagic : le32 bytes 0 = G.magic) (w0 : Nat) (t : List Nat)
    (hrest : (Spec.insts G (bytes.length + 1) [] (Spec.streamWords bytes)).2 = w0 :: t) (hwc : w0 / 65536 = 0) :
    ∃ dF, SView bytes dF (w0 :: t) ∧ (parse G (fun _ => .continue_) bytes).result =
      .err (.inst (.wordCountZero dF.offset ((Spec.insts G (bytes.length + 1) [] (Spec.streamWords bytes)).1.length + 1))) := by
  obtain ⟨e, dF, w0', t', r1, _, r3, r4, _, τF, dF1, r6⟩ :=
    C03_reject G hT bytes hb hs h20 hmagic (by rw [hrest]; simp)
  rw [hrest] at r3
  cases r3
  refine ⟨dF, r4, ?_⟩
  rw [parseInst_wc0 G τF _ dF w0 t r4 hwc] at r6
  cases r6
  exact r1

/-- **C03 (kind, unknown opcode).** -/
theorem C03_kind_unknown (G : Tables) (hT : tablesSafe G = true) (bytes : List Nat) (hb : ∀ b ∈ bytes, b < 256)
    (hs : bytes.length < 2 ^ 63) (h20 : 20 ≤ bytes.length) (hmagic : le32 bytes 0 = G.magic) (w0 : Nat) (t : List Nat)
    (hrest : (Spec.insts G (bytes.length + 1) [] (Spec.streamWords bytes)).2 = w0 :: t) (hwc : w0 / 65536 ≠ 0)
    (hl : lookupOpcode G.core (w0 % 65536) = none) :
    ∃ dF, SView bytes dF (w0 :: t) ∧ (parse G (fun _ => .continue_) bytes).result =
      .err (.inst (.opcodeUnknown dF.offset ((Spec.insts G (bytes.length + 1) [] (Spec.streamWords bytes)).1.length + 1)
        (w0 % 65536))) := by
  obtain ⟨e, dF, w0', t', r1, _, r3, r4, _, τF, dF1, r6⟩ :=
    C03_reject G hT bytes hb hs h20 hmagic (by rw [hrest]; simp)
  rw [hrest] at r3
  cases r3
  refine ⟨dF, r4, ?_⟩
  rw [parseInst_unknown G τF _ dF w0 t r4 hwc hl] at r6
  cases r6
  exact r1

end Rspirv.Props.C03Kind
