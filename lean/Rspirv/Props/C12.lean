import Rspirv.Model.Builder
/-!
# C12 — Builder calls never panic, failed calls change nothing, structure is enforced

Statements about `Rspirv.Model.BState.step` (tied to `dr/build/mod.rs` and the generated method templates by the
`build` channel), for every call sequence. `SelValid` is the invariant "the selection designates an existing function
and block or nothing"; `InRange` is the property's hypothesis that insertion offsets lie within the target list.
-/
namespace Rspirv.Props.C12
open Rspirv Rspirv.Model

def SelValid (s : BState) : Prop :=
  (∀ f, s.selFn = some f → f < s.module.functions.length) ∧
  (∀ b, s.selBlk = some b → ∃ f fn, s.selFn = some f ∧ s.module.functions[f]? = some fn ∧ b < fn.blocks.length)

def ipOk (ip : InsertPoint) (len : Nat) : Prop :=
  match ip with
  | .end_ => True
  | .begin => True
  | .fromEnd n => n ≤ len
  | .fromBegin n => n ≤ len

theorem insertAt_some {α} (l : List α) (ip : InsertPoint) (x : α) (h : ipOk ip l.length) :
    ∃ l', insertAt l ip x = some l' := by
  cases ip with
  | end_ => exact ⟨_, rfl⟩
  | begin => exact ⟨l.take 0 ++ [x] ++ l.drop 0, by simp [insertAt, vecInsert]⟩
  | fromEnd n =>
    simp only [ipOk] at h
    exact ⟨l.take (l.length - n) ++ [x] ++ l.drop (l.length - n), by simp [insertAt, vecInsert, h]⟩
  | fromBegin n =>
    simp only [ipOk] at h
    exact ⟨l.take n ++ [x] ++ l.drop n, by simp [insertAt, vecInsert, h]⟩

/-- functions only grow: same number or more functions, every function keeps at least its blocks -/
def Grows (fs fs' : List (Function Inst)) : Prop :=
  fs.length ≤ fs'.length ∧ ∀ (f : Nat) (fn : Function Inst), fs[f]? = some fn →
    ∃ fn' : Function Inst, fs'[f]? = some fn' ∧ fn.blocks.length ≤ fn'.blocks.length

theorem grows_refl (fs : List (Function Inst)) : Grows fs fs := ⟨Nat.le_refl _, fun f fn h => ⟨fn, h, Nat.le_refl _⟩⟩

theorem grows_set (fs : List (Function Inst)) (f : Nat) (fn fn' : Function Inst) (h : fs[f]? = some fn)
    (hb : fn.blocks.length ≤ fn'.blocks.length) : Grows fs (fs.set f fn') := by
  refine ⟨by simp, ?_⟩
  intro g gn hg
  by_cases e : f = g
  · subst e
    rw [h] at hg; cases hg
    have : f < fs.length := (List.getElem?_eq_some_iff.1 h).1
    exact ⟨fn', by simp [List.getElem?_set, this], hb⟩
  · exact ⟨gn, by simp [List.getElem?_set, e, hg], Nat.le_refl _⟩

theorem grows_append (fs : List (Function Inst)) (x : Function Inst) : Grows fs (fs ++ [x]) := by
  refine ⟨by simp, ?_⟩
  intro g gn hg
  have : g < fs.length := (List.getElem?_eq_some_iff.1 hg).1
  exact ⟨gn, by rw [List.getElem?_append_left this]; exact hg, Nat.le_refl _⟩

/-- the selection stays valid when functions only grow and the selection is unchanged -/
theorem selValid_grows (s s' : BState) (h : SelValid s) (hg : Grows s.module.functions s'.module.functions)
    (hf : s'.selFn = s.selFn) (hb : s'.selBlk = s.selBlk) : SelValid s' := by
  obtain ⟨h1, h2⟩ := h
  constructor
  · intro f hf'; rw [hf] at hf'; exact Nat.lt_of_lt_of_le (h1 f hf') hg.1
  · intro b hb'; rw [hb] at hb'
    obtain ⟨f, fn, e1, e2, e3⟩ := h2 b hb'
    obtain ⟨fn', e4, e5⟩ := hg.2 f fn e2
    exact ⟨f, fn', by rw [hf]; exact e1, e4, Nat.lt_of_lt_of_le e3 e5⟩

/-- dropping the block selection (or both) keeps validity -/
theorem selValid_noBlk (s s' : BState) (h : SelValid s) (hg : Grows s.module.functions s'.module.functions)
    (hf : s'.selFn = s.selFn ∨ s'.selFn = none) (hb : s'.selBlk = none) : SelValid s' := by
  obtain ⟨h1, h2⟩ := h
  constructor
  · intro f hf'
    rcases hf with hf | hf
    · rw [hf] at hf'; exact Nat.lt_of_lt_of_le (h1 f hf') hg.1
    · rw [hf] at hf'; cases hf'
  · intro b hb'; rw [hb] at hb'; cases hb'

theorem push_functions (m : Module Inst) (k : Nat) (i : Inst) : (m.push k i).functions = m.functions := by
  unfold Module.push; split <;> rfl

theorem updBlock_grows (m m' : Module Inst) (f b : Nat) (g : Block Inst → Option (Block Inst))
    (hu : updBlock m f b g = some m') : Grows m.functions m'.functions := by
  unfold updBlock at hu
  cases hfn : m.functions[f]? with
  | none => simp [hfn] at hu
  | some fn =>
    simp only [hfn] at hu
    cases hb : fn.blocks[b]? with
    | none => simp [hb] at hu
    | some blk =>
      simp only [hb] at hu
      cases hg : g blk with
      | none => simp [hg] at hu
      | some blk' =>
        simp only [hg, Option.some.injEq] at hu
        subst hu
        exact grows_set _ f fn _ hfn (by simp)


theorem fn_of (s : BState) (h : SelValid s) (f : Nat) (hf : s.selFn = some f) :
    ∃ fn, s.module.functions[f]? = some fn :=
  ⟨s.module.functions[f]'(h.1 f hf), by simp [h.1 f hf]⟩

theorem blk_of (s : BState) (h : SelValid s) (b : Nat) (hb : s.selBlk = some b) :
    ∃ f fn blk, s.selFn = some f ∧ s.module.functions[f]? = some fn ∧ fn.blocks[b]? = some blk := by
  obtain ⟨f, fn, e1, e2, e3⟩ := h.2 b hb
  exact ⟨f, fn, fn.blocks[b], e1, e2, by simp [e3]⟩

def curLen (s : BState) : Option Nat :=
  match s.selFn, s.selBlk with
  | some f, some b => (s.module.functions[f]?).bind (fun fn => (fn.blocks[b]?).map (·.insts.length))
  | _, _ => none

theorem insertIntoBlock_spec (s : BState) (ip : InsertPoint) (i : Inst) (h : SelValid s)
    (hr : ∀ n, curLen s = some n → ipOk ip n) :
    (s.selBlk = none ∧ insertIntoBlock s ip i = (s, .err (.detachedInstruction i.opcode))) ∨
    (s.selBlk.isSome ∧ ∃ m, insertIntoBlock s ip i = ({ s with module := m }, .unit) ∧
      Grows s.module.functions m.functions) := by
  cases hb : s.selBlk with
  | none =>
    left
    refine ⟨rfl, ?_⟩
    unfold insertIntoBlock
    cases s.selFn <;> simp [hb]
  | some b =>
    right
    obtain ⟨f, fn, blk, e1, e2, e3⟩ := blk_of s h b hb
    refine ⟨rfl, ?_⟩
    have hcl : curLen s = some blk.insts.length := by simp [curLen, e1, hb, e2, e3]
    obtain ⟨l', hl'⟩ := insertAt_some blk.insts ip i (hr _ hcl)
    have hu : updBlock s.module f b (fun blk => (insertAt blk.insts ip i).map (fun l => { blk with insts := l }))
        = some { s.module with functions := s.module.functions.set f { fn with blocks := fn.blocks.set b { blk with insts := l' } } } := by
      simp [updBlock, e2, e3, hl']
    exact ⟨_, by simp [insertIntoBlock, e1, hb, hu], updBlock_grows _ _ f b _ hu⟩

def isErr : BOut → Bool
  | .err _ => true
  | .errDetachedNone => true
  | .errEmptyList => true
  | .errFunctionNotFound => true
  | .errBlockNotFound => true
  | _ => false

def isPanic : BOut → Bool
  | .panic _ => true
  | _ => false

/-- what every call guarantees -/
structure StepOk (s : BState) (r : BState × BOut) : Prop where
  noPanic : isPanic r.2 = false
  valid : SelValid r.1
  atomic : isErr r.2 = true → r.1.module = s.module

theorem ok_same (s : BState) (o : BOut) (h : SelValid s) (hp : isPanic o = false) : StepOk s (s, o) :=
  ⟨hp, h, fun _ => rfl⟩

theorem allocId_facts (s : BState) (r : IdRule) :
    (allocId s r).1.module = s.module ∧ (allocId s r).1.selFn = s.selFn ∧ (allocId s r).1.selBlk = s.selBlk := by
  cases r with
  | none => exact ⟨rfl, rfl, rfl⟩
  | fresh => exact ⟨rfl, rfl, rfl⟩
  | given o => cases o <;> exact ⟨rfl, rfl, rfl⟩

theorem allocId_valid (s : BState) (r : IdRule) (h : SelValid s) : SelValid (allocId s r).1 := by
  obtain ⟨a, b, c⟩ := allocId_facts s r
  exact selValid_grows s _ h (by rw [a]; exact grows_refl _) b c

theorem curLen_alloc (s : BState) (r : IdRule) : curLen (allocId s r).1 = curLen s := by
  obtain ⟨a, b, c⟩ := allocId_facts s r
  simp [curLen, a, b, c]


def InRange (B : BTables) (s : BState) : Call → Prop
  | .blockInst ip _ _ _ _ => ∀ n, curLen s = some n → ipOk ip n
  | .terminator ip _ _ => ∀ n, curLen s = some n → ipOk ip n
  | .insertRaw ip _ => ∀ n, curLen s = some n → ipOk ip n
  | .insertTGV ip _ => ipOk ip s.module.typesGlobalValues.length
  -- the search of `select_function_by_name` indexes `operands[0]`/`operands[1]` of every `OpName` and unwraps every
  -- function's definition id: in range = well-formed names and definitions (what the Builder's own methods produce)
  | .selectByName nm => ∀ site, findByName B s.module.functions nm s.module.debugNames ≠ .panic site
  | _ => True

theorem ok_id (B : BTables) (s : BState) (h : SelValid s) : StepOk s (s.step B .id) :=
  ⟨rfl, selValid_grows s _ h (grows_refl _) rfl rfl, fun hh => by cases hh⟩

theorem ok_beginFunction (B : BTables) (s : BState) (h : SelValid s) (rt : Nat) (fid : Option Nat) (c ft : Nat) :
    StepOk s (s.step B (.beginFunction rt fid c ft)) := by
  have hsv := h
  obtain ⟨h1, h2⟩ := h
  refine ⟨?_, ?_, ?_⟩
  · simp only [BState.step]; split <;> (try split) <;> rfl
  · simp only [BState.step]
    split
    · exact hsv
    · rename_i hn
      have hf : s.selFn = none := by simpa using hn
      have hb : s.selBlk = none := by
        cases hb : s.selBlk with
        | none => rfl
        | some b => obtain ⟨f, _, e, _⟩ := h2 b hb; rw [hf] at e; cases e
      cases fid <;> (constructor
                     · intro f hf'; simp only [Option.some.injEq] at hf'; subst hf'; simp
                     · intro b hb'; simp only at hb'; rw [hb] at hb'; cases hb')
  · simp only [BState.step]
    split
    · intro _; rfl
    · cases fid <;> (intro hh; cases hh)


theorem ok_endFunction (B : BTables) (s : BState) (h : SelValid s) : StepOk s (s.step B .endFunction) := by
  cases hf : s.selFn with
  | none => simp only [BState.step, hf]; exact ok_same s _ h rfl
  | some f =>
    obtain ⟨fn, hfn⟩ := fn_of s h f hf
    simp only [BState.step, hf, hfn]
    refine ⟨rfl, ?_, fun hh => by cases hh⟩
    exact selValid_noBlk s _ h (grows_set _ f fn _ hfn (Nat.le_refl _)) (Or.inr rfl) rfl

theorem ok_functionParameter (B : BTables) (s : BState) (h : SelValid s) (rt : Nat) :
    StepOk s (s.step B (.functionParameter rt)) := by
  cases hf : s.selFn with
  | none => simp only [BState.step, hf]; exact ok_same s _ h rfl
  | some f =>
    obtain ⟨fn, hfn⟩ := fn_of s h f hf
    simp only [BState.step, hf, hfn]
    refine ⟨rfl, ?_, fun hh => by cases hh⟩
    exact selValid_grows s _ h (grows_set _ f fn _ hfn (Nat.le_refl _)) hf.symm rfl

theorem selValid_newBlock (s : BState) (h : SelValid s) (f : Nat) (fn : Function Inst) (blk : Block Inst) (n : Nat)
    (hf : s.selFn = some f) (hfn : s.module.functions[f]? = some fn) :
    SelValid ⟨{ s.module with functions := s.module.functions.set f { fn with blocks := fn.blocks ++ [blk] } }, n,
      some f, some fn.blocks.length⟩ := by
  have hlt : f < s.module.functions.length := h.1 f hf
  constructor
  · intro f' hf'; simp only [Option.some.injEq] at hf'; subst hf'; simp only [List.length_set]; exact hlt
  · intro b hb
    simp only [Option.some.injEq] at hb; subst hb
    refine ⟨f, { fn with blocks := fn.blocks ++ [blk] }, rfl, ?_, by simp⟩
    simp [hlt]

theorem ok_beginBlock (B : BTables) (s : BState) (h : SelValid s) (l : Option Nat) :
    StepOk s (s.step B (.beginBlock l)) := by
  cases hf : s.selFn with
  | none => simp only [BState.step, hf]; exact ok_same s _ h rfl
  | some f =>
    cases hb : s.selBlk with
    | some b => simp only [BState.step, hf, hb, Option.isSome_some, if_true]; exact ok_same s _ h rfl
    | none =>
      obtain ⟨fn, hfn⟩ := fn_of s h f hf
      cases l with
      | some v =>
        simp only [BState.step, hf, hb, Option.isSome_none, Bool.false_eq_true, if_false, hfn]
        exact ⟨rfl, selValid_newBlock s h f fn _ _ hf hfn, fun hh => by cases hh⟩
      | none =>
        simp only [BState.step, hf, hb, Option.isSome_none, Bool.false_eq_true, if_false, hfn]
        exact ⟨rfl, selValid_newBlock s h f fn _ _ hf hfn, fun hh => by cases hh⟩

theorem ok_beginBlockNoLabel (B : BTables) (s : BState) (h : SelValid s) (l : Option Nat) :
    StepOk s (s.step B (.beginBlockNoLabel l)) := by
  cases hf : s.selFn with
  | none => simp only [BState.step, hf]; exact ok_same s _ h rfl
  | some f =>
    cases hb : s.selBlk with
    | some b => simp only [BState.step, hf, hb, Option.isSome_some, if_true]; exact ok_same s _ h rfl
    | none =>
      obtain ⟨fn, hfn⟩ := fn_of s h f hf
      cases l with
      | some v =>
        simp only [BState.step, hf, hb, Option.isSome_none, Bool.false_eq_true, if_false, hfn]
        exact ⟨rfl, selValid_newBlock s h f fn _ _ hf hfn, fun hh => by cases hh⟩
      | none =>
        simp only [BState.step, hf, hb, Option.isSome_none, Bool.false_eq_true, if_false, hfn]
        exact ⟨rfl, selValid_newBlock s h f fn _ _ hf hfn, fun hh => by cases hh⟩


theorem ok_insertRaw (B : BTables) (s : BState) (h : SelValid s) (ip : InsertPoint) (i : Inst)
    (hr : ∀ n, curLen s = some n → ipOk ip n) : StepOk s (s.step B (.insertRaw ip i)) := by
  simp only [BState.step]
  rcases insertIntoBlock_spec s ip i h hr with ⟨_, he⟩ | ⟨_, m, he, hg⟩
  · rw [he]; exact ok_same s _ h rfl
  · rw [he]; exact ⟨rfl, selValid_grows s _ h hg rfl rfl, fun hh => by cases hh⟩

theorem ok_blockInst (B : BTables) (s : BState) (h : SelValid s) (ip : InsertPoint) (op : Nat) (rt : Option Nat)
    (rule : IdRule) (ops : List Operand) (hr : ∀ n, curLen s = some n → ipOk ip n) :
    StepOk s (s.step B (.blockInst ip op rt rule ops)) := by
  simp only [BState.step]
  obtain ⟨hm, hsf, hsb⟩ := allocId_facts s rule
  have hv := allocId_valid s rule h
  have hr' : ∀ n, curLen (allocId s rule).1 = some n → ipOk ip n := by rw [curLen_alloc]; exact hr
  generalize (allocId s rule).2 = rid
  rcases insertIntoBlock_spec (allocId s rule).1 ip ⟨op, rt, rid, ops⟩ hv hr' with ⟨_, he⟩ | ⟨_, m, he, hg⟩
  · rw [he]; exact ⟨rfl, hv, fun _ => hm⟩
  · rw [he]
    cases rid <;> exact ⟨rfl, selValid_grows _ _ hv hg rfl rfl, fun hh => by cases hh⟩

theorem ok_terminator (B : BTables) (s : BState) (h : SelValid s) (ip : InsertPoint) (op : Nat) (ops : List Operand)
    (hr : ∀ n, curLen s = some n → ipOk ip n) : StepOk s (s.step B (.terminator ip op ops)) := by
  simp only [BState.step]
  cases hb : s.selBlk with
  | none => simp only [Option.isSome_none, Bool.false_eq_true, if_false]; exact ok_same s _ h rfl
  | some b =>
    simp only [Option.isSome_some, if_true]
    rcases insertIntoBlock_spec s ip ⟨op, none, none, ops⟩ h hr with ⟨hn, _⟩ | ⟨_, m, he, hg⟩
    · rw [hb] at hn; cases hn
    · rw [he]
      exact ⟨rfl, selValid_noBlk s _ h hg (Or.inl rfl) rfl, fun hh => by cases hh⟩

theorem ok_moduleInst (B : BTables) (s : BState) (h : SelValid s) (k op : Nat) (rt : Option Nat)
    (rule : IdRule) (ops : List Operand) : StepOk s (s.step B (.moduleInst k op rt rule ops)) := by
  simp only [BState.step]
  obtain ⟨hm, hsf, hsb⟩ := allocId_facts s rule
  have hv := allocId_valid s rule h
  refine ⟨by cases (allocId s rule).2 <;> rfl, ?_, by cases (allocId s rule).2 <;> (intro hh; cases hh)⟩
  exact selValid_grows _ _ hv (by simp only [push_functions]; exact grows_refl _) rfl rfl

theorem ok_pushTGV (s : BState) (h : SelValid s) (n : Nat) (i : Inst) :
    SelValid ⟨s.module.push 10 i, n, s.selFn, s.selBlk⟩ :=
  selValid_grows s _ h (by simp only [push_functions]; exact grows_refl _) rfl rfl

theorem ok_varUndef (B : BTables) (s : BState) (h : SelValid s) (op rt : Nat) (rid : Option Nat) (ops : List Operand) :
    StepOk s (s.step B (.varUndef op rt rid ops)) := by
  -- after the id allocation module and selection are those of `s`
  have key : ∀ (n id : Nat), StepOk s
      (match (⟨s.module, n, s.selFn, s.selBlk⟩ : BState).selFn, (⟨s.module, n, s.selFn, s.selBlk⟩ : BState).selBlk with
        | some f, some b =>
          match updBlock s.module f b (fun blk => some { blk with insts := blk.insts ++ [⟨op, some rt, some id, ops⟩] }) with
          | some m => ((⟨m, n, s.selFn, s.selBlk⟩ : BState), BOut.id id)
          | none => (⟨s.module, n, s.selFn, s.selBlk⟩, BOut.panic "variable: index")
        | _, _ => (⟨s.module.push 10 ⟨op, some rt, some id, ops⟩, n, s.selFn, s.selBlk⟩, BOut.id id)) := by
    intro n id
    simp only
    cases hf : s.selFn with
    | none => exact ⟨rfl, by have := ok_pushTGV s h n ⟨op, some rt, some id, ops⟩; rw [hf] at this; exact this, fun hh => by cases hh⟩
    | some f =>
      cases hb : s.selBlk with
      | none => exact ⟨rfl, by have := ok_pushTGV s h n ⟨op, some rt, some id, ops⟩; rw [hf, hb] at this; exact this, fun hh => by cases hh⟩
      | some b =>
        obtain ⟨f', fn, blk, e1, e2, e3⟩ := blk_of s h b hb
        rw [hf] at e1; cases e1
        have hu : updBlock s.module f b (fun blk => some { blk with insts := blk.insts ++ [⟨op, some rt, some id, ops⟩] })
            = some { s.module with functions := s.module.functions.set f { fn with blocks := fn.blocks.set b { blk with insts := blk.insts ++ [⟨op, some rt, some id, ops⟩] } } } := by
          simp [updBlock, e2, e3]
        simp only [hu]
        refine ⟨rfl, ?_, fun hh => by cases hh⟩
        have := selValid_grows s ⟨_, n, s.selFn, s.selBlk⟩ h (updBlock_grows _ _ f b _ hu) rfl rfl
        rw [hf, hb] at this; exact this
  simp only [BState.step]
  cases rid with
  | some v => exact key s.nextId v
  | none => exact key (s.nextId + 1) s.nextId


theorem ok_lineLike (B : BTables) (s : BState) (h : SelValid s) (op : Nat) (ops : List Operand) :
    StepOk s (s.step B (.lineLike op ops)) := by
  simp only [BState.step]
  cases hb : s.selBlk with
  | none =>
    simp only [Option.isSome_none, Bool.false_eq_true, if_false]
    exact ⟨rfl, selValid_grows s _ h (by simp only [push_functions]; exact grows_refl _) rfl hb.symm, fun hh => by cases hh⟩
  | some b =>
    simp only [Option.isSome_some, if_true]
    rcases insertIntoBlock_spec s .end_ ⟨op, none, none, ops⟩ h (fun _ _ => trivial) with ⟨hn, _⟩ | ⟨_, m, he, hg⟩
    · rw [hb] at hn; cases hn
    · rw [he]; exact ⟨rfl, selValid_grows s _ h hg rfl rfl, fun hh => by cases hh⟩

theorem ok_typeRequest (B : BTables) (s : BState) (h : SelValid s) (op : Nat) (rid : Option Nat) (ops : List Operand) :
    StepOk s (s.step B (.typeRequest op rid ops)) := by
  simp only [BState.step]
  cases rid with
  | some v =>
    exact ⟨rfl, selValid_grows s _ h (by simp only [push_functions]; exact grows_refl _) rfl rfl, fun hh => by cases hh⟩
  | none =>
    simp only
    cases s.module.typesGlobalValues.findSome? (fun t => if t.opcode == op && t.operands == ops then t.rid else none) with
    | some id => exact ok_same s _ h rfl
    | none =>
      exact ⟨rfl, selValid_grows s _ h (by simp only [push_functions]; exact grows_refl _) rfl rfl, fun hh => by cases hh⟩

theorem ok_insertTGV (B : BTables) (s : BState) (h : SelValid s) (ip : InsertPoint) (i : Inst)
    (hr : ipOk ip s.module.typesGlobalValues.length) : StepOk s (s.step B (.insertTGV ip i)) := by
  simp only [BState.step]
  obtain ⟨l', hl'⟩ := insertAt_some s.module.typesGlobalValues ip i hr
  rw [hl']
  exact ⟨rfl, selValid_grows s _ h (grows_refl _) rfl rfl, fun hh => by cases hh⟩

theorem ok_setVersion (B : BTables) (s : BState) (h : SelValid s) (a b : Nat) :
    StepOk s (s.step B (.setVersion a b)) := by
  simp only [BState.step]
  exact ⟨rfl, selValid_grows s _ h (grows_refl _) rfl rfl, fun hh => by cases hh⟩

theorem ok_selectFunction (B : BTables) (s : BState) (h : SelValid s) (i : Option Nat) :
    StepOk s (s.step B (.selectFunction i)) := by
  cases i with
  | none =>
    simp only [BState.step]
    exact ⟨rfl, selValid_noBlk s _ h (grows_refl _) (Or.inr rfl) rfl, fun hh => by cases hh⟩
  | some i =>
    simp only [BState.step]
    by_cases hlt : i < s.module.functions.length
    · simp only [hlt, if_true]
      refine ⟨rfl, ⟨?_, ?_⟩, fun hh => by cases hh⟩
      · intro f hf; simp only [Option.some.injEq] at hf; subst hf; exact hlt
      · intro b hb; cases hb
    · simp only [hlt, if_false]; exact ok_same s _ h rfl

theorem ok_selectByName (B : BTables) (s : BState) (h : SelValid s) (nm : List Nat)
    (hr : ∀ site, findByName B s.module.functions nm s.module.debugNames ≠ .panic site) :
    StepOk s (s.step B (.selectByName nm)) := by
  simp only [BState.step]
  cases hf : findByName B s.module.functions nm s.module.debugNames with
  | none => exact ok_same s _ h rfl
  | panic site => exact absurd hf (hr site)
  | idx i =>
    dsimp only
    by_cases hlt : i < s.module.functions.length
    · simp only [hlt, if_true]
      refine ⟨rfl, ⟨?_, ?_⟩, fun hh => by cases hh⟩
      · intro f hf'; simp only [Option.some.injEq] at hf'; subst hf'; exact hlt
      · intro b hb; cases hb
    · simp only [hlt, if_false]; exact ok_same s _ h rfl

theorem ok_selectBlock (B : BTables) (s : BState) (h : SelValid s) (i : Option Nat) :
    StepOk s (s.step B (.selectBlock i)) := by
  cases i with
  | none =>
    simp only [BState.step]
    exact ⟨rfl, selValid_noBlk s _ h (grows_refl _) (Or.inl rfl) rfl, fun hh => by cases hh⟩
  | some i =>
    simp only [BState.step]
    cases hf : s.selFn with
    | none => exact ok_same s _ h rfl
    | some f =>
      obtain ⟨fn, hfn⟩ := fn_of s h f hf
      simp only [hfn]
      by_cases hib : i < fn.blocks.length
      · simp only [hib, if_true]
        refine ⟨rfl, ⟨?_, ?_⟩, fun hh => by cases hh⟩
        · intro f' hf'; simp only [Option.some.injEq] at hf'; subst hf'; exact h.1 _ hf
        · intro b hb; simp only [Option.some.injEq] at hb; subst hb
          exact ⟨f, fn, rfl, hfn, hib⟩
      · simp only [hib, if_false]; exact ok_same s _ h rfl

theorem ok_popInstruction (B : BTables) (s : BState) (h : SelValid s) : StepOk s (s.step B .popInstruction) := by
  simp only [BState.step]
  cases hf : s.selFn with
  | none => exact ok_same s _ h rfl
  | some f =>
    cases hb : s.selBlk with
    | none => exact ok_same s _ h rfl
    | some b =>
      obtain ⟨f', fn, blk, e1, e2, e3⟩ := blk_of s h b hb
      rw [hf] at e1; cases e1
      simp only [e2, e3]
      cases hl : blk.insts.getLast? with
      | none => exact ok_same s _ h rfl
      | some i =>
        simp only
        refine ⟨rfl, ?_, fun hh => by cases hh⟩
        have hu : updBlock s.module f b (fun blk => some { blk with insts := blk.insts.dropLast })
            = some { s.module with functions := s.module.functions.set f { fn with blocks := fn.blocks.set b { blk with insts := blk.insts.dropLast } } } := by
          simp [updBlock, e2, e3]
        exact selValid_grows s _ h (updBlock_grows _ _ f b _ hu) hf.symm hb.symm

/-- **C12 (one call).** Under the invariant and in-range offsets: the call does not panic, the invariant is preserved,
and a call that returns an error leaves the instructions of the module exactly as they were. -/
theorem step_spec (B : BTables) (s : BState) (c : Call) (h : SelValid s) (hr : InRange B s c) : StepOk s (s.step B c) := by
  cases c with
  | id => exact ok_id B s h
  | beginFunction rt fid c ft => exact ok_beginFunction B s h rt fid c ft
  | endFunction => exact ok_endFunction B s h
  | functionParameter rt => exact ok_functionParameter B s h rt
  | beginBlock l => exact ok_beginBlock B s h l
  | beginBlockNoLabel l => exact ok_beginBlockNoLabel B s h l
  | blockInst ip op rt rule ops => exact ok_blockInst B s h ip op rt rule ops hr
  | terminator ip op ops => exact ok_terminator B s h ip op ops hr
  | moduleInst k op rt rule ops => exact ok_moduleInst B s h k op rt rule ops
  | varUndef op rt rid ops => exact ok_varUndef B s h op rt rid ops
  | lineLike op ops => exact ok_lineLike B s h op ops
  | typeRequest op rid ops => exact ok_typeRequest B s h op rid ops
  | insertTGV ip i => exact ok_insertTGV B s h ip i hr
  | insertRaw ip i => exact ok_insertRaw B s h ip i hr
  | setVersion a b => exact ok_setVersion B s h a b
  | selectFunction i => exact ok_selectFunction B s h i
  | selectBlock i => exact ok_selectBlock B s h i
  | selectByName nm => exact ok_selectByName B s h nm hr
  | popInstruction => exact ok_popInstruction B s h


/-- **C12 (structure is enforced).** Success/failure conditions of the structural calls, and what success does to the
selection: a terminator closes the block, ending a function closes the function. -/
theorem C12_conditions (B : BTables) (s : BState) (h : SelValid s) :
    (∀ rt fid c ft, isErr (s.step B (.beginFunction rt fid c ft)).2 = true ↔ s.selFn.isSome = true) ∧
    (∀ l, isErr (s.step B (.beginBlock l)).2 = true ↔ (s.selFn = none ∨ s.selBlk.isSome = true)) ∧
    (∀ rt, isErr (s.step B (.functionParameter rt)).2 = true ↔ s.selFn = none) ∧
    (isErr (s.step B .endFunction).2 = true ↔ s.selFn = none) ∧
    (isErr (s.step B .endFunction).2 = false → (s.step B .endFunction).1.selFn = none ∧ (s.step B .endFunction).1.selBlk = none) ∧
    (∀ ip op ops, (∀ n, curLen s = some n → ipOk ip n) →
      (isErr (s.step B (.terminator ip op ops)).2 = true ↔ s.selBlk = none) ∧
      (isErr (s.step B (.terminator ip op ops)).2 = false → (s.step B (.terminator ip op ops)).1.selBlk = none)) ∧
    (∀ ip op rt rule ops, (∀ n, curLen s = some n → ipOk ip n) →
      (isErr (s.step B (.blockInst ip op rt rule ops)).2 = true ↔ s.selBlk = none)) := by
  refine ⟨?_, ?_, ?_, ?_, ?_, ?_, ?_⟩
  · intro rt fid c ft
    simp only [BState.step]
    cases hf : s.selFn with
    | none => cases fid <;> simp [isErr]
    | some f => simp [isErr]
  · intro l
    simp only [BState.step]
    cases hf : s.selFn with
    | none => simp [isErr]
    | some f =>
      obtain ⟨fn, hfn⟩ := fn_of s h f hf
      cases hb : s.selBlk with
      | some b => simp [isErr]
      | none => cases l <;> simp [isErr, hfn]
  · intro rt
    simp only [BState.step]
    cases hf : s.selFn with
    | none => simp [isErr]
    | some f => obtain ⟨fn, hfn⟩ := fn_of s h f hf; simp [isErr, hfn]
  · simp only [BState.step]
    cases hf : s.selFn with
    | none => simp [isErr]
    | some f => obtain ⟨fn, hfn⟩ := fn_of s h f hf; simp [isErr, hfn]
  · simp only [BState.step]
    cases hf : s.selFn with
    | none => simp [isErr]
    | some f => obtain ⟨fn, hfn⟩ := fn_of s h f hf; simp [isErr, hfn]
  · intro ip op ops hr
    simp only [BState.step]
    cases hb : s.selBlk with
    | none => simp [isErr]
    | some b =>
      simp only [Option.isSome_some, if_true]
      rcases insertIntoBlock_spec s ip ⟨op, none, none, ops⟩ h hr with ⟨hn, _⟩ | ⟨_, m, he, _⟩
      · rw [hb] at hn; cases hn
      · rw [he]; simp [isErr]
  · intro ip op rt rule ops hr
    simp only [BState.step]
    obtain ⟨hm, hsf, hsb⟩ := allocId_facts s rule
    have hv := allocId_valid s rule h
    have hr' : ∀ n, curLen (allocId s rule).1 = some n → ipOk ip n := by rw [curLen_alloc]; exact hr
    generalize (allocId s rule).2 = rid
    rcases insertIntoBlock_spec (allocId s rule).1 ip ⟨op, rt, rid, ops⟩ hv hr' with ⟨hn, he⟩ | ⟨hsm, m, he, _⟩
    · rw [he]; rw [hsb] at hn; simp [isErr, hn]
    · rw [he]; rw [hsb] at hsm
      cases rid with
      | none =>
        simp only [isErr]
        constructor
        · intro hh; cases hh
        · intro hh; rw [hh] at hsm; cases hsm
      | some v =>
        simp only [isErr]
        constructor
        · intro hh; cases hh
        · intro hh; rw [hh] at hsm; cases hsm

/-- every call of the sequence has in-range offsets at the state it is made in -/
def AllInRange (B : BTables) : BState → List Call → Prop
  | _, [] => True
  | s, c :: cs => InRange B s c ∧ AllInRange B (s.step B c).1 cs

/-- **C12 (all histories).** No call of any sequence (with in-range offsets) panics and the selection designates an
existing function and block, or nothing, after every call. -/
theorem C12_run (B : BTables) : ∀ (cs : List Call) (s : BState), SelValid s → AllInRange B s cs →
    (∀ o ∈ (BState.run B s cs).2, isPanic o = false) ∧ SelValid (BState.run B s cs).1
  | [], s, h, _ => ⟨(by intro o ho; cases ho), h⟩
  | c :: cs, s, h, hr => by
    obtain ⟨hr1, hr2⟩ := hr
    obtain ⟨np, hv, _⟩ := step_spec B s c h hr1
    obtain ⟨ih1, ih2⟩ := C12_run B cs (s.step B c).1 hv hr2
    simp only [BState.run]
    refine ⟨?_, ih2⟩
    intro o ho
    rcases List.mem_cons.1 ho with rfl | ho
    · exact np
    · exact ih1 o ho

theorem selValid_new : SelValid BState.new := by
  constructor <;> intro _ h <;> cases h

/-- non-vacuity: the history that panicked before fix ebbae66 is in range from a new builder -/
example (B : BTables) : SelValid BState.new ∧
    AllInRange B BState.new [.beginFunction 1 none 0 2, .beginBlock none, .endFunction, .beginFunction 1 none 0 2,
      .blockInst .end_ 0 none .none []] := by
  refine ⟨selValid_new, trivial, trivial, trivial, trivial, ?_, trivial⟩
  intro n _; trivial

end Rspirv.Props.C12
