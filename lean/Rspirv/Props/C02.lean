import Rspirv.Props.C03
import Rspirv.Props.C08
import Rspirv.Props.C09
import Rspirv.Model.Assemble
/-!
# C02 — assemble and parse are inverse to each other on the instructions of the grammar

The grammar is the recogniser `Rspirv.Model.Spec` (see `Props/C03.lean`: the parser accepts exactly what it accepts).
An instruction *of the grammar* is one the recogniser produces from some word list. For every such instruction `i`:

* `C02_spec` – the words the assembler emits for `i`, followed by anything, are recognised again as exactly `i` with that
  continuation left over: `Spec.inst (assembleInst i ++ rest) = some (i, rest)`;
* `C02_first_word` – the first emitted word is `word count << 16 | opcode` with the word count equal to the number of
  words emitted; then result type, result id and the operands' encodings follow (by definition of `assembleInst`);
* `C02` – the statement for the parser model itself: parsing the bytes of `assembleInst i` (after any state between
  instructions) delivers `i`.

The proof is one family of lemmas `*_enc`: each `Spec` routine that succeeds on some words with value `x` succeeds with
the same `x` on `enc x ++ rest` for every continuation `rest`, where `enc` is the assembler's encoding (enumerants and
masks as their value, 64-bit literals low word first, strings NUL-terminated and zero-padded).
-/
namespace Rspirv.Props.C02
open Rspirv Rspirv.Model Rspirv.Model.DState Rspirv.Props.C04 Rspirv.Props.ParserSpec

def WordsOk (ws : List Nat) : Prop := ∀ w ∈ ws, w < 4294967296

theorem WordsOk.tail {w : Nat} {t : List Nat} (h : WordsOk (w :: t)) : WordsOk t :=
  fun x hx => h x (List.mem_cons_of_mem _ hx)

theorem WordsOk.drop {ws : List Nat} (h : WordsOk ws) (n : Nat) : WordsOk (ws.drop n) :=
  fun x hx => h x (List.mem_of_mem_drop hx)

theorem WordsOk.take {ws : List Nat} (h : WordsOk ws) (n : Nat) : WordsOk (ws.take n) :=
  fun x hx => h x (List.mem_of_mem_take hx)

/-! ### strings -/

theorem wordBytes_lt (w : Nat) : ∀ b ∈ Spec.wordBytes w, b < 256 := by
  intro b hb
  simp only [Spec.wordBytes, List.mem_cons, List.mem_nil_iff, or_false] at hb
  rcases hb with rfl | rfl | rfl | rfl <;> omega

theorem flatMap_wordBytes_lt (ws : List Nat) : ∀ b ∈ ws.flatMap Spec.wordBytes, b < 256 := by
  intro b hb
  obtain ⟨w, _, hw⟩ := List.mem_flatMap.1 hb
  exact wordBytes_lt w b hw

theorem flatMap_wordBytes_length (ws : List Nat) : (ws.flatMap Spec.wordBytes).length = 4 * ws.length := by
  induction ws with
  | nil => rfl
  | cons w t ih => simp only [List.flatMap_cons, List.length_append, ih, Spec.wordBytes, List.length_cons, List.length_nil]; omega

/-- the bytes of a packed string: the string, its NUL, zero padding to the word boundary -/
theorem packStr_bytes : ∀ (n : Nat) (bs : List Nat), bs.length = n → (∀ b ∈ bs, b < 256) →
    (packStr bs).flatMap Spec.wordBytes = bs ++ List.replicate (4 - bs.length % 4) 0 ∧
    (packStr bs).length = bs.length / 4 + 1
  | n, bs, hn, hb => by
    match bs, hn, hb with
    | [], _, _ => simp [packStr, leWord, Spec.wordBytes]
    | [b0], _, hb =>
      have h0 := hb b0 (by simp)
      simp only [packStr, leWord, List.getD_eq_getElem?_getD]
      refine ⟨?_, by simp⟩
      simp [Spec.wordBytes]
      refine ⟨by omega, by omega, by omega, by omega⟩
    | [b0, b1], _, hb =>
      have h0 := hb b0 (by simp)
      have h1 := hb b1 (by simp)
      simp only [packStr, leWord, List.getD_eq_getElem?_getD]
      refine ⟨?_, by simp⟩
      simp [Spec.wordBytes]
      refine ⟨by omega, by omega, by omega, by omega⟩
    | [b0, b1, b2], _, hb =>
      have h0 := hb b0 (by simp)
      have h1 := hb b1 (by simp)
      have h2 := hb b2 (by simp)
      simp only [packStr, leWord, List.getD_eq_getElem?_getD]
      refine ⟨?_, by simp⟩
      simp [Spec.wordBytes]
      refine ⟨by omega, by omega, by omega, by omega⟩
    | b0 :: b1 :: b2 :: b3 :: t, hn, hb =>
      have h0 := hb b0 (by simp)
      have h1 := hb b1 (by simp)
      have h2 := hb b2 (by simp)
      have h3 := hb b3 (by simp)
      obtain ⟨ih1, ih2⟩ := packStr_bytes t.length t rfl (fun b hb' => hb b (by simp [hb']))
      have hw : Spec.wordBytes (leWord [b0, b1, b2, b3]) = [b0, b1, b2, b3] := by
        simp only [leWord, List.getD_eq_getElem?_getD]
        exact le32_bytes b0 b1 b2 b3 h0 h1 h2 h3
      simp only [packStr, List.flatMap_cons, hw, ih1, List.length_cons, ih2]
      refine ⟨?_, by omega⟩
      have : (t.length + 1 + 1 + 1 + 1) % 4 = t.length % 4 := by omega
      simp [this]
termination_by n => n
decreasing_by simp_all; omega

theorem findIdx_zero (bs tail : List Nat) (hnz : ∀ b ∈ bs, b ≠ 0) :
    (bs ++ 0 :: tail).findIdx? (· == 0) = some bs.length := by
  induction bs with
  | nil => simp [List.findIdx?_cons]
  | cons b t ih =>
    have hb : (b == 0) = false := by simpa using hnz b (by simp)
    simp only [List.cons_append, List.findIdx?_cons, hb, Bool.false_eq_true, if_false]
    rw [ih (fun x hx => hnz x (List.mem_cons_of_mem _ hx))]
    simp

/-- **strings.** A recognised string is recognised again from its packed encoding, whatever follows. -/
theorem str_enc (ws bs rest : List Nat) (h : Spec.str ws = some (bs, rest)) (r' : List Nat) :
    Spec.str (packStr bs ++ r') = some (bs, r') := by
  unfold Spec.str at h
  cases hf : (ws.flatMap Spec.wordBytes).findIdx? (· == 0) with
  | none => rw [hf] at h; cases h
  | some nul =>
    rw [hf] at h
    dsimp only at h
    split at h
    · rename_i hutf
      cases h
      obtain ⟨hnl, _, hmin⟩ := List.findIdx?_eq_some_iff_getElem.1 hf
      have hlt : ∀ b ∈ (ws.flatMap Spec.wordBytes).take nul, b < 256 :=
        fun b hb => flatMap_wordBytes_lt ws b (List.mem_of_mem_take hb)
      have hnz : ∀ b ∈ (ws.flatMap Spec.wordBytes).take nul, b ≠ 0 := by
        intro b hb
        obtain ⟨j, hj, rfl⟩ := List.mem_iff_getElem.1 hb
        rw [List.length_take] at hj
        have hj' : j < nul := by omega
        rw [List.getElem_take]
        have := hmin j hj'
        simpa using this
      generalize (ws.flatMap Spec.wordBytes).take nul = bs at hutf hlt hnz ⊢
      obtain ⟨hbytes, hlen⟩ := packStr_bytes bs.length bs rfl hlt
      unfold Spec.str
      rw [List.flatMap_append, hbytes]
      have hrep : List.replicate (4 - bs.length % 4) 0 = 0 :: List.replicate (3 - bs.length % 4) 0 := by
        have : 4 - bs.length % 4 = (3 - bs.length % 4) + 1 := by omega
        rw [this, List.replicate_succ]
      rw [hrep, List.append_assoc, List.cons_append, findIdx_zero bs _ hnz]
      dsimp only
      rw [List.take_left' rfl]
      simp only [hutf, if_true]
      rw [← hlen, List.drop_left' rfl]
    · cases h

/-! ### elements and logical operands -/

def encOps (os : List Operand) : List Nat := os.flatMap encodeOperand

theorem encOps_cons (o : Operand) (os : List Operand) : encOps (o :: os) = encodeOperand o ++ encOps os := rfl
theorem encOps_append (a b : List Operand) : encOps (a ++ b) = encOps a ++ encOps b := by simp [encOps]

/-- every enumeration's `from_u32` returns the number it was given (C08's table check) -/
def EnumsExact (G : Tables) : Prop := ∀ E ∈ G.enums, E.rangesExact = true

theorem elem_enc (G : Tables) (hex : EnumsExact G) (e : Elem) (ws : List Nat) (o : Operand) (rest : List Nat)
    (h : Spec.elem G e ws = some (o, rest)) (r' : List Nat) :
    Spec.elem G e (encodeOperand o ++ r') = some (o, r') := by
  unfold Spec.elem at h ⊢
  split at h
  · rename_i h0
    simp only [h0, if_true]
    cases ws with
    | nil => cases h
    | cons w t =>
      dsimp only at h
      cases hE : G.enums[e.ix]? with
      | none => rw [hE] at h; cases h
      | some E =>
        rw [hE] at h
        dsimp only at h
        cases hf : E.fromU32 w with
        | none => rw [hf] at h; cases h
        | some v =>
          rw [hf] at h
          cases h
          have hv : v = w := (EnumSpec.fromU32_exact E (hex E (List.mem_of_getElem? hE)) w).2 v hf
          subst hv
          simp only [encodeOperand, List.cons_append, List.nil_append, hE, hf]
  · rename_i h0
    simp only [h0, Bool.false_eq_true, if_false] at h ⊢
    split at h
    · rename_i h1
      simp only [h1, if_true]
      cases ws with
      | nil => cases h
      | cons w t =>
        dsimp only at h
        cases hM : G.masks[e.ix]? with
        | none => rw [hM] at h; cases h
        | some M =>
          rw [hM] at h
          dsimp only at h
          cases hf : M.fromBits w with
          | none => rw [hf] at h; cases h
          | some v =>
            rw [hf] at h
            cases h
            have hv : v = w := by
              unfold MaskSpec.fromBits at hf
              split at hf
              · cases hf; rfl
              · cases hf
            subst hv
            simp only [encodeOperand, List.cons_append, List.nil_append, hM, hf]
    · rename_i h1
      simp only [h1, Bool.false_eq_true, if_false] at h ⊢
      split at h
      · rename_i h2
        simp only [h2, if_true]
        cases ws with
        | nil => cases h
        | cons w t => cases h; simp only [encodeOperand, List.cons_append, List.nil_append]
      · rename_i h2
        simp only [h2, Bool.false_eq_true, if_false]
        cases hs : Spec.str ws with
        | none => rw [hs] at h; cases h
        | some p =>
          obtain ⟨bs, rest'⟩ := p
          rw [hs] at h
          cases h
          simp only [encodeOperand, str_enc ws bs rest hs r']

theorem elems_enc (G : Tables) (hex : EnumsExact G) : ∀ (es : List Elem) (ws : List Nat) (os : List Operand) (rest : List Nat),
    Spec.elems G es ws = some (os, rest) → ∀ r', Spec.elems G es (encOps os ++ r') = some (os, r')
  | [], ws, os, rest, h, r' => by simp only [Spec.elems] at h; cases h; rfl
  | e :: es, ws, os, rest, h, r' => by
    unfold Spec.elems at h
    cases h1 : Spec.elem G e ws with
    | none => rw [h1] at h; cases h
    | some p =>
      obtain ⟨o, t⟩ := p
      rw [h1] at h
      dsimp only at h
      cases h2 : Spec.elems G es t with
      | none => rw [h2] at h; cases h
      | some q =>
        obtain ⟨os', t'⟩ := q
        rw [h2] at h
        cases h
        unfold Spec.elems
        rw [encOps_cons, List.append_assoc, elem_enc G hex e ws o t h1]
        dsimp only
        rw [elems_enc G hex es t os' rest h2 r']

theorem operand_enc (G : Tables) (hex : EnumsExact G) (k : Nat) (ws : List Nat) (os : List Operand) (rest : List Nat)
    (h : Spec.operand G k ws = some (os, rest)) (r' : List Nat) :
    Spec.operand G k (encOps os ++ r') = some (os, r') := by
  unfold Spec.operand at h ⊢
  cases ha : G.kindActs[k]? with
  | none => rw [ha] at h; cases h
  | some act =>
    rw [ha] at h
    cases act with
    | panics => cases h
    | elems es => exact elems_enc G hex es ws os rest h r'
    | maskParams e rows =>
      dsimp only at h ⊢
      cases h1 : Spec.elem G e ws with
      | none => rw [h1] at h; cases h
      | some p =>
        obtain ⟨v, t⟩ := p
        rw [h1] at h
        dsimp only at h
        cases h2 : Spec.elems G (maskSel rows v.num) t with
        | none => rw [h2] at h; cases h
        | some q =>
          obtain ⟨os', t'⟩ := q
          rw [h2] at h
          cases h
          rw [encOps_cons, List.append_assoc, elem_enc G hex e ws v t h1]
          dsimp only
          rw [elems_enc G hex _ t os' rest h2 r']
    | enumParams e rows =>
      dsimp only at h ⊢
      cases h1 : Spec.elem G e ws with
      | none => rw [h1] at h; cases h
      | some p =>
        obtain ⟨v, t⟩ := p
        rw [h1] at h
        dsimp only at h
        cases h2 : Spec.elems G (enumSel rows v.num) t with
        | none => rw [h2] at h; cases h
        | some q =>
          obtain ⟨os', t'⟩ := q
          rw [h2] at h
          cases h
          rw [encOps_cons, List.append_assoc, elem_enc G hex e ws v t h1]
          dsimp only
          rw [elems_enc G hex _ t os' rest h2 r']

/-! ### literals -/

theorem literal_enc (G : Tables) (τ : Tracker) (ty : Nat) (ws : List Nat) (o : Operand) (rest : List Nat)
    (h : Spec.literal G τ ty ws = some (o, rest)) (r' : List Nat) :
    Spec.literal G τ ty (encodeOperand o ++ r') = some (o, r') := by
  have h1 : ∀ o rest, Spec.lit1 G ws = some (o, rest) → Spec.lit1 G (encodeOperand o ++ r') = some (o, r') := by
    intro o rest h
    unfold Spec.lit1 at h
    cases ws with
    | nil => cases h
    | cons w t => cases h; rfl
  have h2 : ∀ o rest, Spec.lit2 ws = some (o, rest) → Spec.lit2 (encodeOperand o ++ r') = some (o, r') := by
    intro o rest h
    unfold Spec.lit2 at h
    cases ws with
    | nil => cases h
    | cons lo t =>
      cases t with
      | nil => cases h
      | cons hi t' =>
        cases h
        have e1 : (hi % 4294967296 * 4294967296 + lo % 4294967296) % 4294967296 = lo % 4294967296 := by omega
        have e2 : (hi % 4294967296 * 4294967296 + lo % 4294967296) / 4294967296 = hi % 4294967296 := by omega
        simp only [Spec.lit2, encodeOperand, List.cons_append, List.nil_append, e1, e2, Nat.mod_mod]
  unfold Spec.literal at h ⊢
  cases hres : τ.resolve ty with
  | none => rw [hres] at h; exact h1 o rest h
  | some t =>
    rw [hres] at h
    cases t with
    | int w sg =>
      dsimp only at h ⊢
      split at h
      · rename_i hc; simp only [hc, if_true]; exact h1 o rest h
      · rename_i hc
        simp only [hc, Bool.false_eq_true, if_false]
        split at h
        · rename_i hc2; simp only [hc2, if_true]; exact h2 o rest h
        · cases h
    | float w =>
      dsimp only at h ⊢
      split at h
      · rename_i hc; simp only [hc, if_true]; exact h1 o rest h
      · rename_i hc
        simp only [hc, Bool.false_eq_true, if_false]
        split at h
        · rename_i hc2; simp only [hc2, if_true]; exact h2 o rest h
        · cases h

/-! ### progress of the recogniser -/

theorem encodeOperand_ne (o : Operand) : encodeOperand o ≠ [] := by
  cases o with
  | w v x => simp [encodeOperand]
  | q x => simp [encodeOperand]
  | s bs =>
    simp only [encodeOperand]
    match bs with
    | [] => simp [packStr]
    | [_] => simp [packStr]
    | [_, _] => simp [packStr]
    | [_, _, _] => simp [packStr]
    | _ :: _ :: _ :: _ :: _ => simp [packStr]

theorem encOps_ne (os : List Operand) (h : os ≠ []) : encOps os ≠ [] := by
  cases os with
  | nil => exact absurd rfl h
  | cons o t =>
    rw [encOps_cons]
    intro he
    exact encodeOperand_ne o (List.append_eq_nil_iff.1 he).1

theorem elems_length (G : Tables) : ∀ (es : List Elem) (ws : List Nat) (os : List Operand) (rest : List Nat),
    Spec.elems G es ws = some (os, rest) → os.length = es.length
  | [], ws, os, rest, h => by simp only [Spec.elems] at h; cases h; rfl
  | e :: es, ws, os, rest, h => by
    unfold Spec.elems at h
    cases h1 : Spec.elem G e ws with
    | none => rw [h1] at h; cases h
    | some p =>
      obtain ⟨o, t⟩ := p
      rw [h1] at h
      dsimp only at h
      cases h2 : Spec.elems G es t with
      | none => rw [h2] at h; cases h
      | some q =>
        obtain ⟨os', t'⟩ := q
        rw [h2] at h
        cases h
        simp [elems_length G es t os' rest h2]

theorem operand_nonempty (G : Tables) (k : Nat) (hk : kindOk G k = true) (ws : List Nat) (os : List Operand) (rest : List Nat)
    (h : Spec.operand G k ws = some (os, rest)) : os ≠ [] := by
  unfold kindOk at hk
  unfold Spec.operand at h
  cases ha : G.kindActs[k]? with
  | none => rw [ha] at hk; cases hk
  | some act =>
    rw [ha] at hk h
    cases act with
    | panics => cases hk
    | elems es =>
      simp only [actOk, Bool.and_eq_true, Bool.not_eq_true', List.isEmpty_eq_false_iff] at hk
      have := elems_length G es ws os rest h
      intro he; rw [he] at this
      exact hk.1 (List.eq_nil_of_length_eq_zero this.symm)
    | maskParams e rows =>
      dsimp only at h
      cases h1 : Spec.elem G e ws with
      | none => rw [h1] at h; cases h
      | some p =>
        obtain ⟨v, t⟩ := p
        rw [h1] at h
        dsimp only at h
        cases h2 : Spec.elems G (maskSel rows v.num) t with
        | none => rw [h2] at h; cases h
        | some q => obtain ⟨os', t'⟩ := q; rw [h2] at h; cases h; simp
    | enumParams e rows =>
      dsimp only at h
      cases h1 : Spec.elem G e ws with
      | none => rw [h1] at h; cases h
      | some p =>
        obtain ⟨v, t⟩ := p
        rw [h1] at h
        dsimp only at h
        cases h2 : Spec.elems G (enumSel rows v.num) t with
        | none => rw [h2] at h; cases h
        | some q => obtain ⟨os', t'⟩ := q; rw [h2] at h; cases h; simp

theorem operand_nil (G : Tables) (k : Nat) (hk : kindOk G k = true) : Spec.operand G k [] = none := by
  cases h : Spec.operand G k [] with
  | none => rfl
  | some p =>
    obtain ⟨os, rest⟩ := p
    exfalso
    -- a successful operand consumes at least the words of one element: there are none
    have hne := operand_nonempty G k hk [] os rest h
    unfold kindOk at hk
    unfold Spec.operand at h
    cases ha : G.kindActs[k]? with
    | none => rw [ha] at hk; cases hk
    | some act =>
      rw [ha] at hk h
      have elem_nil : ∀ e, Spec.elem G e [] = none := by
        intro e
        unfold Spec.elem
        split
        · rfl
        · split
          · rfl
          · split
            · rfl
            · simp [Spec.str]
      cases act with
      | panics => cases hk
      | elems es =>
        cases es with
        | nil => simp only [Spec.elems] at h; cases h; exact hne rfl
        | cons e es => simp only [Spec.elems, elem_nil] at h; cases h
      | maskParams e rows => simp only [elem_nil] at h; cases h
      | enumParams e rows => simp only [elem_nil] at h; cases h

/-! ### OpSpecConstantOp -/

theorem many_enc (G : Tables) (hex : EnumsExact G) (k : Nat) (hk : kindOk G k = true) : ∀ (fuel : Nat) (ws : List Nat)
    (os : List Operand), Spec.many G k fuel ws = some os → ∀ fuel', (encOps os).length < fuel' →
    Spec.many G k fuel' (encOps os) = some os
  | 0, _, _, h, _, _ => by simp only [Spec.many] at h; cases h
  | fuel + 1, ws, os, h, fuel', hf => by
    unfold Spec.many at h
    cases fuel' with
    | zero => exact absurd hf (Nat.not_lt_zero _)
    | succ f' =>
      split at h
      · cases h; simp [Spec.many, encOps]
      · cases h1 : Spec.operand G k ws with
        | none => rw [h1] at h; cases h
        | some p =>
          obtain ⟨os1, t⟩ := p
          rw [h1] at h
          dsimp only at h
          cases h2 : Spec.many G k fuel t with
          | none => rw [h2] at h; cases h
          | some more =>
            rw [h2] at h
            cases h
            have hne := encOps_ne os1 (operand_nonempty G k hk ws os1 t h1)
            rw [encOps_append] at hf ⊢
            unfold Spec.many
            have hnotempty : (encOps os1 ++ encOps more).isEmpty = false := by
              cases hx : encOps os1 with
              | nil => exact absurd hx hne
              | cons _ _ => rfl
            simp only [hnotempty, Bool.false_eq_true, if_false]
            rw [operand_enc G hex k ws os1 t h1 (encOps more)]
            dsimp only
            have hlen : 0 < (encOps os1).length := by
              cases hx : encOps os1 with
              | nil => exact absurd hx hne
              | cons _ _ => simp
            simp only [List.length_append] at hf
            rw [many_enc G hex k hk fuel t more h2 f' (by omega)]

theorem nested_nil (G : Tables) : ∀ (ops : List (Nat × Nat)) (os : List Operand) (rest : List Nat),
    nestedOk G ops = true → Spec.nested G ops [] = some (os, rest) → os = [] ∧ rest = []
  | [], os, rest, _, h => by simp only [Spec.nested] at h; cases h; exact ⟨rfl, rfl⟩
  | (k, q) :: ops, os, rest, hok, h => by
    simp only [nestedOk, List.all_cons, Bool.and_eq_true] at hok
    unfold Spec.nested at h
    split at h
    · exact nested_nil G ops os rest hok.2 h
    · rename_i hres
      have hk : kindOk G k = true := by
        have := hok.1
        simp only [Bool.or_eq_true] at this hres
        rcases this with (h' | h') | h'
        · exact absurd (Or.inl h') hres
        · exact absurd (Or.inr h') hres
        · exact h'
      dsimp only at h
      cases h2 : Spec.nested G ops [] with
      | none =>
        by_cases hq0 : (q == 0) = true
        · simp only [hq0, if_true, operand_nil G k hk] at h; cases h
        · simp only [hq0, Bool.false_eq_true, if_false] at h
          by_cases hq1 : (q == 1) = true
          · simp only [hq1, if_true, List.isEmpty_nil, h2] at h; cases h
          · simp only [hq1, Bool.false_eq_true, if_false, Spec.many, List.isEmpty_nil, if_true, h2] at h; cases h
      | some p =>
        obtain ⟨more, t'⟩ := p
        obtain ⟨e1, e2⟩ := nested_nil G ops more t' hok.2 h2
        subst e1; subst e2
        by_cases hq0 : (q == 0) = true
        · simp only [hq0, if_true, operand_nil G k hk] at h; cases h
        · simp only [hq0, Bool.false_eq_true, if_false] at h
          by_cases hq1 : (q == 1) = true
          · simp only [hq1, if_true, List.isEmpty_nil, h2] at h; cases h; exact ⟨rfl, rfl⟩
          · simp only [hq1, Bool.false_eq_true, if_false, Spec.many, List.isEmpty_nil, if_true, h2] at h
            cases h; exact ⟨rfl, rfl⟩

/-- the embedded operands are recognised again from their encoding, followed by `r'` — which must be empty if the
original left nothing over (a variadic operand takes everything that follows) -/
theorem nested_enc (G : Tables) (hex : EnumsExact G) : ∀ (ops : List (Nat × Nat)) (ws : List Nat) (os : List Operand)
    (rest : List Nat), nestedOk G ops = true → Spec.nested G ops ws = some (os, rest) →
    ∀ r', (rest = [] → r' = []) → Spec.nested G ops (encOps os ++ r') = some (os, r')
  | [], ws, os, rest, _, h, r', _ => by simp only [Spec.nested] at h; cases h; rfl
  | (k, q) :: ops, ws, os, rest, hok, h, r', hr' => by
    have hok' := hok
    simp only [nestedOk, List.all_cons, Bool.and_eq_true] at hok
    unfold Spec.nested at h ⊢
    split at h
    · rename_i hres
      simp only [hres, if_true]
      exact nested_enc G hex ops ws os rest hok.2 h r' hr'
    · rename_i hres
      simp only [hres, Bool.false_eq_true, if_false]
      have hk : kindOk G k = true := by
        have := hok.1
        simp only [Bool.or_eq_true] at this hres
        rcases this with (h' | h') | h'
        · exact absurd (Or.inl h') hres
        · exact absurd (Or.inr h') hres
        · exact h'
      by_cases hq0 : (q == 0) = true
      · simp only [hq0, if_true] at h ⊢
        cases h1 : Spec.operand G k ws with
        | none => rw [h1] at h; cases h
        | some p =>
          obtain ⟨os1, t⟩ := p
          rw [h1] at h
          dsimp only at h
          cases h2 : Spec.nested G ops t with
          | none => rw [h2] at h; cases h
          | some p2 =>
            obtain ⟨more, t'⟩ := p2
            rw [h2] at h
            cases h
            rw [encOps_append, List.append_assoc, operand_enc G hex k ws os1 t h1]
            dsimp only
            rw [nested_enc G hex ops t more rest hok.2 h2 r' hr']
      · simp only [hq0, Bool.false_eq_true, if_false] at h ⊢
        by_cases hq1 : (q == 1) = true
        · simp only [hq1, if_true] at h ⊢
          by_cases hemp : ws.isEmpty = true
          · simp only [hemp, if_true] at h
            have hws : ws = [] := List.isEmpty_iff.1 hemp
            subst hws
            cases h2 : Spec.nested G ops [] with
            | none => rw [h2] at h; cases h
            | some p2 =>
              obtain ⟨more, t'⟩ := p2
              rw [h2] at h
              cases h
              obtain ⟨e1, e2⟩ := nested_nil G ops more rest hok.2 h2
              subst e1; subst e2
              have := hr' rfl
              subst this
              simp only [encOps, List.flatMap_nil, List.append_nil, List.isEmpty_nil, if_true, h2]
          · simp only [hemp, Bool.false_eq_true, if_false] at h
            cases h1 : Spec.operand G k ws with
            | none => rw [h1] at h; cases h
            | some p =>
              obtain ⟨os1, t⟩ := p
              rw [h1] at h
              dsimp only at h
              cases h2 : Spec.nested G ops t with
              | none => rw [h2] at h; cases h
              | some p2 =>
                obtain ⟨more, t'⟩ := p2
                rw [h2] at h
                cases h
                have hne := encOps_ne os1 (operand_nonempty G k hk ws os1 t h1)
                rw [encOps_append, List.append_assoc]
                have hnotempty : (encOps os1 ++ (encOps more ++ r')).isEmpty = false := by
                  cases hx : encOps os1 with
                  | nil => exact absurd hx hne
                  | cons _ _ => rfl
                simp only [hnotempty, Bool.false_eq_true, if_false]
                rw [operand_enc G hex k ws os1 t h1]
                dsimp only
                rw [nested_enc G hex ops t more rest hok.2 h2 r' hr']
        · simp only [hq1, Bool.false_eq_true, if_false] at h ⊢
          cases h1 : Spec.many G k (ws.length + 1) ws with
          | none => rw [h1] at h; cases h
          | some os1 =>
            rw [h1] at h
            dsimp only at h
            cases h2 : Spec.nested G ops [] with
            | none => rw [h2] at h; cases h
            | some p2 =>
              obtain ⟨more, t'⟩ := p2
              rw [h2] at h
              cases h
              obtain ⟨e1, e2⟩ := nested_nil G ops more rest hok.2 h2
              subst e1; subst e2
              have := hr' rfl
              subst this
              simp only [List.append_nil]
              rw [many_enc G hex k hk (ws.length + 1) ws os1 h1 ((encOps os1).length + 1) (by omega)]
              dsimp only
              rw [h2]
              simp

theorem specOp_enc (G : Tables) (hc : coreKindsOk G = true) (hex : EnumsExact G) (ws : List Nat) (os : List Operand)
    (rest : List Nat) (h : Spec.specOp G ws = some (os, rest)) (r' : List Nat) (hr' : rest = [] → r' = []) :
    Spec.specOp G (encOps os ++ r') = some (os, r') ∧ os ≠ [] := by
  unfold Spec.specOp at h
  cases ws with
  | nil => cases h
  | cons number t =>
    dsimp only at h
    generalize hg : Option.filter (fun e => !(e.ops.any (fun o => isCtxKind G o.1)))
      (if number ≤ 65535 then lookupOpcode G.core number else none) = g at h
    cases g with
    | none => cases h
    | some e =>
      dsimp only at h
      have hinfo : number ≤ 65535 ∧ lookupOpcode G.core number = some e ∧ (e.ops.any (fun o => isCtxKind G o.1)) = false := by
        rw [Option.filter_eq_some_iff] at hg
        obtain ⟨hlook, hp⟩ := hg
        split at hlook
        · rename_i hle; exact ⟨hle, hlook, by simpa using hp⟩
        · cases hlook
      obtain ⟨hle, hlook, hnoctx⟩ := hinfo
      obtain ⟨hmem, hop⟩ := lookupOpcode_some _ _ _ hlook
      have hnest : nestedOk G e.ops = true := by
        simp only [coreKindsOk, List.all_eq_true] at hc
        simp only [nestedOk, List.all_eq_true]
        intro o ho
        have h1 := hc e hmem o ho
        have h2 : isCtxKind G o.1 = false := by
          rw [List.any_eq_false] at hnoctx
          simpa using hnoctx o ho
        simp only [Bool.or_eq_true, h2, Bool.false_eq_true, or_false] at h1 ⊢
        exact h1
      cases h2 : Spec.nested G e.ops t with
      | none => rw [h2] at h; cases h
      | some p =>
        obtain ⟨os', t'⟩ := p
        rw [h2] at h
        cases h
        refine ⟨?_, by simp⟩
        unfold Spec.specOp
        rw [encOps_cons]
        simp only [encodeOperand, List.cons_append, List.nil_append]
        rw [hop, hg]
        dsimp only
        rw [nested_enc G hex e.ops t os' rest hnest h2 r' hr']
        simp [hop]

/-! ### `parse_operands` -/

/-- the words the assembler emits after the first one: result type, result id, operands -/
def accWords (a : Acc) : List Nat := a.rtype.toList ++ a.rid.toList ++ encOps a.ops

theorem accWords_ops (a : Acc) (os : List Operand) : accWords { a with ops := a.ops ++ os } = accWords a ++ encOps os := by
  simp [accWords, encOps_append, List.append_assoc]

/-- every kind of the list is either one of the context dependent kinds or parsable by `parse_operand`, or a result kind -/
def KindsOk (G : Tables) (ops : List (Nat × Nat)) : Prop :=
  ∀ o ∈ ops, (o.1 == G.kIdResultType || o.1 == G.kIdResult || isCtxKind G o.1 || kindOk G o.1) = true

/-- one logical operand is recognised again from its encoding -/
theorem one_enc (G : Tables) (hc : coreKindsOk G = true) (hex : EnumsExact G) (τ : Tracker) (opcode k : Nat) (a a1 : Acc)
    (ws t : List Nat) (h : Spec.one G τ opcode k a ws = some (a1, t))
    (hk : (k == G.kIdResultType || k == G.kIdResult || isCtxKind G k || kindOk G k) = true)
    (hrt : (k == G.kIdResultType) = true → a.rtype = none ∧ a.rid = none ∧ a.ops = [])
    (hrid : (k == G.kIdResult) = true → a.rid = none ∧ a.ops = []) :
    ∃ enc, enc ≠ [] ∧ accWords a1 = accWords a ++ enc ∧
      ∀ r', (t = [] → r' = []) → Spec.one G τ opcode k a (enc ++ r') = some (a1, r') := by
  unfold Spec.one at h
  by_cases k1 : (k == G.kIdResultType) = true
  · simp only [k1, if_true] at h
    cases ws with
    | nil => cases h
    | cons w t0 =>
      cases h
      obtain ⟨e1, e2, e3⟩ := hrt k1
      refine ⟨[w], by simp, ?_, ?_⟩
      · simp [accWords, e1, e2, e3, encOps]
      · intro r' _; simp [Spec.one, k1]
  · simp only [k1, Bool.false_eq_true, if_false] at h
    by_cases k2 : (k == G.kIdResult) = true
    · simp only [k2, if_true] at h
      cases ws with
      | nil => cases h
      | cons w t0 =>
        cases h
        obtain ⟨e2, e3⟩ := hrid k2
        refine ⟨[w], by simp, ?_, ?_⟩
        · simp [accWords, e2, e3, encOps]
        · intro r' _; simp [Spec.one, k1, k2]
    · simp only [k2, Bool.false_eq_true, if_false] at h
      by_cases k3 : (k == G.kCtxNumber) = true
      · simp only [k3, if_true] at h
        split at h
        · cases h
        · rename_i hop
          cases hrtype : a.rtype with
          | none => rw [hrtype] at h; cases h
          | some ty =>
            rw [hrtype] at h
            dsimp only at h
            cases hl : Spec.literal G τ ty ws with
            | none => rw [hl] at h; cases h
            | some p =>
              obtain ⟨o, t'⟩ := p
              rw [hl] at h
              cases h
              refine ⟨encodeOperand o, encodeOperand_ne o, ?_, ?_⟩
              · have := accWords_ops a [o]; rw [hrtype] at this; simpa [encOps] using this
              · intro r' _
                simp only [Spec.one, k1, k2, k3, Bool.false_eq_true, if_false, if_true, hop, hrtype,
                  literal_enc G τ ty ws o t hl r']
      · simp only [k3, Bool.false_eq_true, if_false] at h
        by_cases k4 : (k == G.kPairLitId) = true
        · simp only [k4, if_true] at h
          split at h
          · cases h
          · rename_i hop
            cases hops : a.ops with
            | nil => rw [hops] at h; cases h
            | cons o0 tl =>
              rw [hops] at h
              cases o0 with
              | q v => cases h
              | s bsx => cases h
              | w v sel =>
                dsimp only at h
                split at h
                · cases h
                · rename_i hv0
                  cases hl : Spec.literal G τ sel ws with
                  | none => rw [hl] at h; cases h
                  | some p =>
                    obtain ⟨lit, t'⟩ := p
                    rw [hl] at h
                    cases t' with
                    | nil => cases h
                    | cons tgt t'' =>
                      cases h
                      refine ⟨encodeOperand lit ++ [tgt], by simp, ?_, ?_⟩
                      · have := accWords_ops a [lit, .w G.vIdRef tgt]
                        rw [hops] at this
                        simpa [encOps, encodeOperand, hops] using this
                      · intro r' _
                        simp only [Spec.one, k1, k2, k3, k4, Bool.false_eq_true, if_false, if_true, hop, hops, hv0,
                          List.append_assoc, literal_enc G τ sel ws lit (tgt :: t) hl ([tgt] ++ r')]
                        rfl
        · simp only [k4, Bool.false_eq_true, if_false] at h
          by_cases k5 : (k == G.kSpecOp) = true
          · simp only [k5, if_true] at h
            cases hs : Spec.specOp G ws with
            | none => rw [hs] at h; cases h
            | some p =>
              obtain ⟨os, t'⟩ := p
              rw [hs] at h
              cases h
              have hne := (specOp_enc G hc hex ws os t hs [] (fun _ => rfl)).2
              refine ⟨encOps os, encOps_ne os hne, accWords_ops a os, ?_⟩
              intro r' hr'
              simp only [Spec.one, k1, k2, k3, k4, k5, Bool.false_eq_true, if_false, if_true,
                (specOp_enc G hc hex ws os t hs r' hr').1]
          · simp only [k5, Bool.false_eq_true, if_false] at h
            have hkind : kindOk G k = true := by
              have hctx : isCtxKind G k = false := by
                simp only [isCtxKind, Bool.or_eq_false_iff]
                exact ⟨⟨by simpa using k3, by simpa using k4⟩, by simpa using k5⟩
              simp only [Bool.or_eq_true, hctx, Bool.false_eq_true, or_false] at hk
              rcases hk with (h' | h') | h'
              · exact absurd h' k1
              · exact absurd h' k2
              · exact h'
            cases hs : Spec.operand G k ws with
            | none => rw [hs] at h; cases h
            | some p =>
              obtain ⟨os, t'⟩ := p
              rw [hs] at h
              cases h
              refine ⟨encOps os, encOps_ne os (operand_nonempty G k hkind ws os t hs), accWords_ops a os, ?_⟩
              intro r' _
              simp only [Spec.one, k1, k2, k3, k4, k5, Bool.false_eq_true, if_false, operand_enc G hex k ws os t hs r']

/-- no result kind in the list -/
def NoRes (G : Tables) (ops : List (Nat × Nat)) : Prop :=
  ∀ o ∈ ops, (o.1 == G.kIdResultType) = false ∧ (o.1 == G.kIdResult) = false

/-- where result kinds may still come in the list (at most a required result type first, then a required result id),
and that the accumulator is still empty enough for their words to be *appended* to the emitted words -/
def LeadOk (G : Tables) : List (Nat × Nat) → Acc → Prop
  | [], _ => True
  | (k, q) :: rest, a =>
    if (k == G.kIdResultType) = true then
      q = 0 ∧ a.rtype = none ∧ a.rid = none ∧ a.ops = [] ∧
      (match rest with
       | [] => True
       | (k2, q2) :: rest2 => if (k2 == G.kIdResult) = true then q2 = 0 ∧ NoRes G rest2 else NoRes G rest)
    else if (k == G.kIdResult) = true then q = 0 ∧ a.rid = none ∧ a.ops = [] ∧ NoRes G rest
    else NoRes G ((k, q) :: rest)

theorem leadOk_of_noRes (G : Tables) : ∀ (ops : List (Nat × Nat)) (a : Acc), NoRes G ops → LeadOk G ops a
  | [], _, _ => trivial
  | (k, q) :: rest, a, h => by
    have hk := h (k, q) List.mem_cons_self
    simp only [LeadOk, hk.1, hk.2, Bool.false_eq_true, if_false]
    exact h

theorem NoRes.tail {G : Tables} {o : Nat × Nat} {t : List (Nat × Nat)} (h : NoRes G (o :: t)) : NoRes G t :=
  fun x hx => h x (List.mem_cons_of_mem _ hx)

theorem loop_nil (G : Tables) (τ : Tracker) (opcode : Nat) : ∀ (fuel : Nat) (ops : List (Nat × Nat)) (a a' : Acc)
    (r : List Nat), Spec.loop G τ opcode fuel ops a [] = some (a', r) → a' = a ∧ r = []
  | 0, _, _, _, _, h => by simp only [Spec.loop] at h; cases h
  | fuel + 1, [], a, a', r, h => by simp only [Spec.loop] at h; cases h; exact ⟨rfl, rfl⟩
  | fuel + 1, (k, q) :: rest, a, a', r, h => by
    simp only [Spec.loop, List.isEmpty_nil, Bool.not_true, Bool.false_eq_true, if_false] at h
    split at h
    · cases h
    · cases h; exact ⟨rfl, rfl⟩

/-- reading a result type touches nothing else -/
theorem one_rtype (G : Tables) (τ : Tracker) (opcode k : Nat) (a a1 : Acc) (ws t : List Nat)
    (hk : (k == G.kIdResultType) = true) (h : Spec.one G τ opcode k a ws = some (a1, t)) :
    a1.rid = a.rid ∧ a1.ops = a.ops := by
  unfold Spec.one at h
  simp only [hk, if_true] at h
  cases ws with
  | nil => cases h
  | cons w t0 => cases h; exact ⟨rfl, rfl⟩

/-- **the operand loop on its own output's encoding.** If the loop collects `a'` from some words, leaving none, then the
words the assembler emits for what was collected are recognised as `a'` again, by the same loop with any sufficient fuel. -/
theorem loop_enc (G : Tables) (hc : coreKindsOk G = true) (hex : EnumsExact G) (τ : Tracker) (opcode : Nat)
    (hne : (G.kIdResult == G.kIdResultType) = false) :
    ∀ (fuel : Nat) (ops : List (Nat × Nat)) (a a' : Acc) (ws : List Nat),
    Spec.loop G τ opcode fuel ops a ws = some (a', []) → LeadOk G ops a → KindsOk G ops →
    ∃ E, accWords a' = accWords a ++ E ∧
      ∀ fuel', ops.length + E.length < fuel' → Spec.loop G τ opcode fuel' ops a E = some (a', [])
  | 0, _, _, _, _, h, _, _ => by simp only [Spec.loop] at h; cases h
  | fuel + 1, [], a, a', ws, h, _, _ => by
    simp only [Spec.loop] at h
    cases h
    refine ⟨[], by simp, ?_⟩
    intro fuel' hf
    cases fuel' with
    | zero => exact absurd hf (Nat.not_lt_zero _)
    | succ f' => simp [Spec.loop]
  | fuel + 1, (k, q) :: rest, a, a', ws, h, hlead, hkinds => by
    unfold Spec.loop at h
    by_cases hemp : ws.isEmpty = true
    · simp only [hemp, Bool.not_true, Bool.false_eq_true, if_false] at h
      split at h
      · cases h
      · rename_i hq
        cases h
        refine ⟨[], by simp, ?_⟩
        intro fuel' hf
        cases fuel' with
        | zero => exact absurd hf (Nat.not_lt_zero _)
        | succ f' => simp [Spec.loop, hq]
    · have hemp' : ws.isEmpty = false := by simpa using hemp
      simp only [hemp', Bool.not_false, if_true] at h
      cases h1 : Spec.one G τ opcode k a ws with
      | none => rw [h1] at h; cases h
      | some p =>
        obtain ⟨a1, t⟩ := p
        rw [h1] at h
        dsimp only at h
        have hkk := hkinds (k, q) List.mem_cons_self
        have hk12 : (k == G.kIdResult) = true → (k == G.kIdResultType) = false := by
          intro hk2
          rw [beq_iff_eq] at hk2
          rw [hk2]; exact hne
        have hrt : (k == G.kIdResultType) = true → a.rtype = none ∧ a.rid = none ∧ a.ops = [] := by
          intro hk1
          simp only [LeadOk, hk1, if_true] at hlead
          exact ⟨hlead.2.1, hlead.2.2.1, hlead.2.2.2.1⟩
        have hrid : (k == G.kIdResult) = true → a.rid = none ∧ a.ops = [] := by
          intro hk2
          simp only [LeadOk, hk12 hk2, hk2, Bool.false_eq_true, if_false, if_true] at hlead
          exact ⟨hlead.2.1, hlead.2.2.1⟩
        obtain ⟨enc1, hne1, hacc1, hre1⟩ := one_enc G hc hex τ opcode k a a1 ws t h1 hkk hrt hrid
        have hlen1 : 0 < enc1.length := by
          cases hx : enc1 with
          | nil => exact absurd hx hne1
          | cons _ _ => simp
        have hkrest : KindsOk G rest := fun o ho => hkinds o (List.mem_cons_of_mem _ ho)
        -- the common ending: given the continuation's encoding, assemble the claim
        have finish : ∀ (ops' : List (Nat × Nat)) (E2 : List Nat),
            Spec.loop G τ opcode fuel ops' a1 t = some (a', []) →
            accWords a' = accWords a1 ++ E2 →
            (∀ fuel', ops'.length + E2.length < fuel' → Spec.loop G τ opcode fuel' ops' a1 E2 = some (a', [])) →
            (∀ f', Spec.loop G τ opcode (f' + 1) ((k, q) :: rest) a (enc1 ++ E2) =
              (if q == 2 then Spec.loop G τ opcode f' ((k, q) :: rest) a1 E2 else Spec.loop G τ opcode f' rest a1 E2)) := by
          intro ops' E2 hl hacc2 _ f'
          have hE2 : t = [] → E2 = [] := by
            intro ht
            subst ht
            have := (loop_nil G τ opcode fuel ops' a1 a' [] hl).1
            subst this
            exact (List.self_eq_append_right.1 hacc2)
          have hnotempty : (enc1 ++ E2).isEmpty = false := by
            cases hx : enc1 with
            | nil => exact absurd hx hne1
            | cons _ _ => rfl
          conv => lhs; unfold Spec.loop
          simp only [hnotempty, Bool.not_false, if_true, hre1 E2 hE2]
        by_cases hq2 : (q == 2) = true
        · simp only [hq2, if_true] at h
          have hnores : NoRes G ((k, q) :: rest) := by
            by_cases hk1 : (k == G.kIdResultType) = true
            · simp only [LeadOk, hk1, if_true] at hlead
              rw [hlead.1] at hq2; cases hq2
            · by_cases hk2 : (k == G.kIdResult) = true
              · simp only [LeadOk, hk1, hk2, Bool.false_eq_true, if_false, if_true] at hlead
                rw [hlead.1] at hq2; cases hq2
              · simpa only [LeadOk, hk1, hk2, Bool.false_eq_true, if_false] using hlead
          obtain ⟨E2, hacc2, hre2⟩ := loop_enc G hc hex τ opcode hne fuel ((k, q) :: rest) a1 a' t h
            (leadOk_of_noRes G _ a1 hnores) hkinds
          refine ⟨enc1 ++ E2, by rw [hacc2, hacc1, List.append_assoc], ?_⟩
          intro fuel' hf
          cases fuel' with
          | zero => exact absurd hf (Nat.not_lt_zero _)
          | succ f' =>
            rw [finish _ E2 h hacc2 hre2 f']
            simp only [hq2, if_true]
            apply hre2
            simp only [List.length_append, List.length_cons] at hf ⊢
            omega
        · simp only [hq2, Bool.false_eq_true, if_false] at h
          have hlead1 : LeadOk G rest a1 := by
            by_cases hk1 : (k == G.kIdResultType) = true
            · simp only [LeadOk, hk1, if_true] at hlead
              obtain ⟨_, _, hrid0, hops0, hrest⟩ := hlead
              obtain ⟨e1, e2⟩ := one_rtype G τ opcode k a a1 ws t hk1 h1
              cases rest with
              | nil => trivial
              | cons o2 rest2 =>
                obtain ⟨k2, q2⟩ := o2
                dsimp only at hrest
                by_cases hk22 : (k2 == G.kIdResult) = true
                · simp only [hk22, if_true] at hrest
                  have hk21 : (k2 == G.kIdResultType) = false := by
                    rw [beq_iff_eq] at hk22; rw [hk22]; exact hne
                  simp only [LeadOk, hk21, hk22, Bool.false_eq_true, if_false, if_true]
                  exact ⟨hrest.1, by rw [e1]; exact hrid0, by rw [e2]; exact hops0, hrest.2⟩
                · simp only [hk22, Bool.false_eq_true, if_false] at hrest
                  exact leadOk_of_noRes G _ a1 hrest
            · by_cases hk2 : (k == G.kIdResult) = true
              · simp only [LeadOk, hk1, hk2, Bool.false_eq_true, if_false, if_true] at hlead
                exact leadOk_of_noRes G _ a1 hlead.2.2.2
              · have : NoRes G ((k, q) :: rest) := by
                  simpa only [LeadOk, hk1, hk2, Bool.false_eq_true, if_false] using hlead
                exact leadOk_of_noRes G _ a1 this.tail
          obtain ⟨E2, hacc2, hre2⟩ := loop_enc G hc hex τ opcode hne fuel rest a1 a' t h hlead1 hkrest
          refine ⟨enc1 ++ E2, by rw [hacc2, hacc1, List.append_assoc], ?_⟩
          intro fuel' hf
          cases fuel' with
          | zero => exact absurd hf (Nat.not_lt_zero _)
          | succ f' =>
            rw [finish _ E2 h hacc2 hre2 f']
            simp only [hq2, Bool.false_eq_true, if_false]
            apply hre2
            simp only [List.length_append, List.length_cons] at hf ⊢
            omega

/-! ### instructions -/

/-- the Boolean table check `resultsLead` (C09: part of `Entry.wf`) gives `LeadOk` for the empty accumulator -/
theorem leadOk_of_resultsLead (G : Tables) (ops : List (Nat × Nat))
    (h : resultsLead ⟨G.kIdResultType, G.kIdResult⟩ ops = true) : LeadOk G ops ⟨none, none, []⟩ := by
  have conv : ∀ l : List (Nat × Nat), noResultKinds ⟨G.kIdResultType, G.kIdResult⟩ l = true → NoRes G l := by
    intro l hl o ho
    simp only [noResultKinds, List.all_eq_true, Bool.and_eq_true, bne_iff_ne, ne_eq] at hl
    have := hl o ho
    exact ⟨by simpa using this.1, by simpa using this.2⟩
  cases ops with
  | nil => trivial
  | cons o t =>
    obtain ⟨k, q⟩ := o
    unfold resultsLead at h
    dsimp only at h
    by_cases hk1 : (k == G.kIdResultType) = true
    · simp only [hk1, if_true, Bool.and_eq_true] at h
      have hq : q = 0 := beq_iff_eq.1 h.1
      simp only [LeadOk, hk1, if_true]
      refine ⟨hq, by simp, by simp, by simp, ?_⟩
      cases t with
      | nil => trivial
      | cons o2 t2 =>
        obtain ⟨k2, q2⟩ := o2
        have h2 := h.2
        dsimp only at h2 ⊢
        by_cases hk22 : (k2 == G.kIdResult) = true
        · simp only [hk22, if_true, Bool.and_eq_true] at h2 ⊢
          exact ⟨beq_iff_eq.1 h2.1, conv _ h2.2⟩
        · simp only [hk22, Bool.false_eq_true, if_false] at h2 ⊢
          exact conv _ h2
    · simp only [hk1, Bool.false_eq_true, if_false] at h
      by_cases hk2 : (k == G.kIdResult) = true
      · simp only [hk2, if_true, Bool.and_eq_true] at h
        simp only [LeadOk, hk1, hk2, Bool.false_eq_true, if_false, if_true]
        exact ⟨beq_iff_eq.1 h.1, by simp, by simp, conv _ h.2⟩
      · simp only [hk2, Bool.false_eq_true, if_false] at h
        simp only [LeadOk, hk1, hk2, Bool.false_eq_true, if_false]
        exact conv _ h

/-- what the theorems need of the tables; each item is a Boolean check decided by the kernel on the regenerated tables -/
structure GoodTables (G : Tables) : Prop where
  kinds : coreKindsOk G = true
  enums : EnumsExact G
  lead : ∀ e ∈ G.core, resultsLead ⟨G.kIdResultType, G.kIdResult⟩ e.ops = true
  distinct : (G.kIdResult == G.kIdResultType) = false

theorem first_word (op len : Nat) (hop : op < 65536) (hlen : len < 65536) :
    (op ||| (len * 65536 % 4294967296)) / 65536 = len ∧ (op ||| (len * 65536 % 4294967296)) % 65536 = op := by
  have h1 : len * 65536 % 4294967296 = len * 65536 := Nat.mod_eq_of_lt (by omega)
  rw [h1]
  have h2 : op ||| len * 65536 = 2 ^ 16 * len + op := by
    rw [Nat.two_pow_add_eq_or_of_lt (i := 16) (by omega) len, Nat.or_comm]
    congr 1
    omega
  rw [h2]
  omega

/-- **C02 (at the level of the grammar).** An instruction the recogniser produces is recognised again from the words
the assembler emits for it, followed by any continuation. -/
theorem C02_spec (G : Tables) (good : GoodTables G) (τ : Tracker) (ws : List Nat) (i : Inst) (rest : List Nat)
    (h : Spec.inst G τ ws = some (i, rest)) (hlen : (assembleInst i).length < 65536) (r' : List Nat) :
    Spec.inst G τ (assembleInst i ++ r') = some (i, r') := by
  unfold Spec.inst at h
  cases ws with
  | nil => cases h
  | cons w0 t =>
    dsimp only at h
    split at h
    · cases h
    · rename_i hwc
      cases hlook : lookupOpcode G.core (w0 % 65536) with
      | none => rw [hlook] at h; cases h
      | some e =>
        rw [hlook] at h
        dsimp only at h
        split at h
        · cases h
        · cases hl : Spec.loop G τ e.opcode (w0 / 65536 + e.ops.length + 1) e.ops ⟨none, none, []⟩ (t.take (w0 / 65536 - 1)) with
          | none => rw [hl] at h; cases h
          | some p =>
            obtain ⟨a, r0⟩ := p
            rw [hl] at h
            cases r0 with
            | cons _ _ => cases h
            | nil =>
              cases h
              obtain ⟨hmem, hop⟩ := lookupOpcode_some _ _ _ hlook
              have hkinds : KindsOk G e.ops := by
                have := good.kinds
                simp only [coreKindsOk, List.all_eq_true] at this
                exact fun o ho => this e hmem o ho
              obtain ⟨E, hacc, hre⟩ := loop_enc G good.kinds good.enums τ e.opcode good.distinct _ e.ops _ a _ hl
                (leadOk_of_resultsLead G e.ops (good.lead e hmem)) hkinds
              have hE : E = accWords a := by simpa [accWords, encOps] using hacc.symm
              -- the words the assembler emits
              have hasm : assembleInst ⟨e.opcode, a.rtype, a.rid, a.ops⟩ =
                  (e.opcode ||| ((accWords a).length + 1) * 65536 % 4294967296) :: accWords a := by
                simp [assembleInst, accWords, encOps]
              rw [hasm] at hlen ⊢
              simp only [List.length_cons] at hlen
              have hop16 : e.opcode < 65536 := by rw [hop]; omega
              obtain ⟨f1, f2⟩ := first_word e.opcode ((accWords a).length + 1) hop16 hlen
              unfold Spec.inst
              simp only [List.cons_append, f1, f2]
              have hlook' : lookupOpcode G.core e.opcode = some e := by rw [hop]; exact hlook
              rw [hlook']
              have hwc' : ((accWords a).length + 1 == 0) = false := by simp
              simp only [hwc', Bool.false_eq_true, if_false, Nat.add_sub_cancel, List.length_append]
              have hnl : ¬ ((accWords a).length + r'.length < (accWords a).length) := by omega
              simp only [hnl, if_false, List.take_left' rfl, List.drop_left' rfl]
              rw [← hE, hre _ (by omega)]

/-- **C02 (first word).** The assembler's first word carries the number of words it emits and the opcode. -/
theorem C02_first_word (i : Inst) (hop : i.opcode < 65536) (hlen : (assembleInst i).length < 65536) :
    ∃ w0 body, assembleInst i = w0 :: body ∧ w0 / 65536 = (assembleInst i).length ∧ w0 % 65536 = i.opcode ∧
      body = i.rtype.toList ++ i.rid.toList ++ i.operands.flatMap encodeOperand := by
  refine ⟨_, _, rfl, ?_, ?_, rfl⟩
  · have := (first_word i.opcode _ hop (by simpa [assembleInst] using hlen)).1
    simpa [assembleInst] using this
  · have := (first_word i.opcode _ hop (by simpa [assembleInst] using hlen)).2
    simpa [assembleInst] using this

/-! ### the parser model on the assembled bytes -/

theorem le32_wordBytes (w : Nat) (hw : w < 4294967296) (pre post : List Nat) :
    le32 (pre ++ Spec.wordBytes w ++ post) pre.length = w := by
  unfold le32
  have g : ∀ j (hj : j < 4), (pre ++ Spec.wordBytes w ++ post).getD (pre.length + j) 0 = (Spec.wordBytes w).getD j 0 := by
    intro j hj
    rw [List.getD_eq_getElem?_getD, List.getD_eq_getElem?_getD, List.append_assoc, List.getElem?_append_right (by omega)]
    have : pre.length + j - pre.length = j := by omega
    rw [this, List.getElem?_append_left (by simp [Spec.wordBytes]; omega)]
  have g0 := g 0 (by omega); have g1 := g 1 (by omega); have g2 := g 2 (by omega); have g3 := g 3 (by omega)
  simp only [Nat.add_zero] at g0
  rw [g0, g1, g2, g3]
  simp only [Spec.wordBytes, List.getD_eq_getElem?_getD, List.getElem?_cons_zero, List.getElem?_cons_succ, Option.getD_some]
  omega

/-- a buffer made of `pre` followed by the bytes of `ws`, seen from the end of `pre` -/
theorem sview_of_words : ∀ (ws : List Nat) (pre : List Nat), WordsOk ws → (∀ b ∈ pre, b < 256) →
    (pre ++ ws.flatMap Spec.wordBytes).length < 2 ^ 63 →
    SView (pre ++ ws.flatMap Spec.wordBytes) ⟨pre ++ ws.flatMap Spec.wordBytes, pre.length, none⟩ ws := by
  intro ws pre hw hpre hsmall
  have hlen := flatMap_wordBytes_length ws
  refine ⟨rfl, rfl, ?_, ?_, ?_, ?_, hsmall⟩
  · simp only [List.length_append, hlen]; omega
  · simp only [List.length_append, hlen]; omega
  · intro k hk
    -- split the words at position k
    have hsplit : ws = ws.take k ++ ws[k] :: ws.drop (k + 1) := by
      rw [List.getElem_cons_drop_succ_eq_drop, List.take_append_drop]
    have hk' : (ws.take k).length = k := by rw [List.length_take]; omega
    have hbytes : pre ++ ws.flatMap Spec.wordBytes =
        (pre ++ (ws.take k).flatMap Spec.wordBytes) ++ Spec.wordBytes ws[k] ++ (ws.drop (k + 1)).flatMap Spec.wordBytes := by
      have e : ws.flatMap Spec.wordBytes = (ws.take k ++ ws[k] :: ws.drop (k + 1)).flatMap Spec.wordBytes := by
        rw [← hsplit]
      rw [e, List.flatMap_append, List.flatMap_cons]
      simp only [List.append_assoc]
    have hpl : (pre ++ (ws.take k).flatMap Spec.wordBytes).length = pre.length + 4 * k := by
      rw [List.length_append, flatMap_wordBytes_length, hk']
    rw [hbytes]
    have := le32_wordBytes ws[k] (hw _ (List.getElem_mem hk)) (pre ++ (ws.take k).flatMap Spec.wordBytes)
      ((ws.drop (k + 1)).flatMap Spec.wordBytes)
    rw [hpl] at this
    show le32 _ (pre.length + 4 * k) = _
    rw [this]
    simp [List.getD_eq_getElem?_getD, hk]
  · intro b hb
    rcases List.mem_append.1 hb with h | h
    · exact hpre b h
    · exact flatMap_wordBytes_lt ws b h

open Rspirv.Instances in
/-- the regenerated tables are good (C04's, C08's and C09's kernel-evaluated table checks) -/
theorem good_tables : GoodTables theTables := by
  refine ⟨?_, ?_, ?_, by decide⟩
  · have := tables_safe
    simp only [tablesSafe, Bool.and_eq_true] at this
    exact this.1
  · intro E hE
    have := Rspirv.Props.C08.enums_wf
    rw [List.all_eq_true] at this
    have h := this E hE
    rw [Bool.and_eq_true] at h
    exact h.1
  · intro e he
    have := Rspirv.Props.C09.tables_ok
    simp only [Rspirv.Props.C09.tablesOk, Bool.and_eq_true, List.all_eq_true] at this
    have h := this.1.1.1.1.1.1.2 e he
    simp only [Bool.and_eq_true, Entry.wf] at h
    exact h.2.1.1

open Rspirv.Instances in
/-- **C02.** Let `i` be an instruction of the grammar (recognised from some words under the tracked types `τ`) whose
encoding fits the 16-bit word count and consists of 32-bit words. Write the words the assembler emits for `i` as
little-endian bytes anywhere in a buffer, after `pre` and before the bytes of further words `r'`: `parse_inst` at that
position delivers exactly `i` and stops in front of `r'`. -/
theorem C02 (τ : Tracker) (idx : Nat) (ws : List Nat) (i : Inst) (rest : List Nat)
    (h : Spec.inst theTables τ ws = some (i, rest)) (hlen : (assembleInst i).length < 65536)
    (r' pre : List Nat) (hw : WordsOk (assembleInst i ++ r')) (hpre : ∀ b ∈ pre, b < 256)
    (hsmall : (pre ++ (assembleInst i ++ r').flatMap Spec.wordBytes).length < 2 ^ 63) :
    ∃ d', parseInst theTables τ idx ⟨pre ++ (assembleInst i ++ r').flatMap Spec.wordBytes, pre.length, none⟩ = (.ok i, d') ∧
      SView (pre ++ (assembleInst i ++ r').flatMap Spec.wordBytes) d' r' := by
  have hspec := C02_spec theTables good_tables τ ws i rest h hlen r'
  have hv := sview_of_words (assembleInst i ++ r') pre hw hpre hsmall
  -- the assembled words start with the word-count word; its declared extent is the assembled words themselves
  obtain ⟨w0, body, hasm, _, _, _⟩ : ∃ w0 body, assembleInst i = w0 :: body ∧ True ∧ True ∧ True := ⟨_, _, rfl, trivial, trivial, trivial⟩
  rw [hasm, List.cons_append] at hv hspec
  by_cases hfit : w0 / 65536 - 1 ≤ (body ++ r').length
  · have := parseInst_ref theTables good_tables.kinds τ idx _ w0 (body ++ r') hv hfit
    rw [hspec] at this
    rw [hasm, List.cons_append]
    exact this
  · rw [Rspirv.Props.C03.inst_overrun theTables τ w0 (body ++ r') (by omega)] at hspec
    cases hspec

end Rspirv.Props.C02
