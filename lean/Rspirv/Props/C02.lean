import Rspirv.Model.Assemble
namespace Rspirv.Props.C02
end Rspirv.Props.C02
