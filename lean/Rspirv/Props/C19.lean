import Rspirv.Model.Storage
/-!
# C19 — storage tokens are stable handles to the appended values

All statements are for an arbitrary element type and an arbitrary Boolean equality (no reflexivity,
symmetry or transitivity assumed), and for every finite history of operations.
-/
namespace Rspirv.Props.C19
open Rspirv.Model.Storage

variable {α : Type} (eq : α → α → Bool)

/-- an append returns the old length as token, and looking that token up yields the appended value -/
theorem append_token (s : List α) (v : α) :
    (append s v).2 = s.length ∧ (append s v).1[(append s v).2]? = some v := by
  simp [append]

/-- every step only extends the storage: earlier tokens keep designating their values -/
theorem step_extends (s : List α) (op : Op α) : ∃ suf, (step eq s op).1 = s ++ suf ∧ suf.length ≤ 1 := by
  cases op with
  | append v => exact ⟨[v], rfl, Nat.le_refl _⟩
  | fetch v =>
    simp only [step, fetchOrAppend]
    cases position eq s v with
    | some i => exact ⟨[], by simp, by simp⟩
    | none => exact ⟨[v], rfl, Nat.le_refl _⟩

theorem step_stable (s : List α) (op : Op α) (i : Nat) (hi : i < s.length) :
    (step eq s op).1[i]? = s[i]? := by
  obtain ⟨suf, h, _⟩ := step_extends eq s op
  rw [h, List.getElem?_append_left hi]

/-- the token returned by a step designates a stored value, and for `fetch_or_append` that value equals the
argument under the given equality when one existed, and is the argument itself otherwise -/
theorem step_token_valid (s : List α) (op : Op α) : (step eq s op).2 < (step eq s op).1.length := by
  cases op with
  | append v => simp [step, append]
  | fetch v =>
    simp only [step, fetchOrAppend]
    cases h : position eq s v with
    | some i =>
      simp only [position] at h
      exact (List.findIdx?_eq_some_iff_getElem.1 h).1
    | none => simp [append]

/-- `fetch_or_append` returns the index of the FIRST stored value equal to the argument, leaving the storage
unchanged, when such a value exists -/
theorem fetch_first (s : List α) (v : α) (i : Nat) (hi : i < s.length) (hv : eq s[i] v = true)
    (hmin : ∀ j (hj : j < i), eq (s[j]'(Nat.lt_trans hj hi)) v = false) :
    fetchOrAppend eq s v = (s, i) := by
  have : position eq s v = some i := by
    simp only [position]
    rw [List.findIdx?_eq_some_iff_getElem]
    refine ⟨hi, hv, ?_⟩
    intro j hj
    simp [hmin j hj]
  simp [fetchOrAppend, this]

/-- ... and appends (fresh token = old length) when no stored value is equal to the argument -/
theorem fetch_absent (s : List α) (v : α) (h : ∀ x ∈ s, eq x v = false) :
    fetchOrAppend eq s v = (s ++ [v], s.length) := by
  have : position eq s v = none := by
    simp only [position, List.findIdx?_eq_none_iff]
    intro x hx; simp [h x hx]
  simp [fetchOrAppend, this, append]

/-- conversely the result of `fetch_or_append` is always one of the two cases above -/
theorem fetch_cases (s : List α) (v : α) :
    (∃ i, ∃ hi : i < s.length, eq s[i] v = true ∧ (∀ j (hj : j < i), eq (s[j]'(Nat.lt_trans hj hi)) v = false) ∧
        fetchOrAppend eq s v = (s, i)) ∨
    ((∀ x ∈ s, eq x v = false) ∧ fetchOrAppend eq s v = (s ++ [v], s.length)) := by
  cases h : position eq s v with
  | some i =>
    left
    simp only [position] at h
    obtain ⟨hi, hv, hmin⟩ := List.findIdx?_eq_some_iff_getElem.1 h
    refine ⟨i, hi, hv, ?_, ?_⟩
    · intro j hj; simpa using hmin j hj
    · simp [fetchOrAppend, position, h]
  | none =>
    right
    simp only [position, List.findIdx?_eq_none_iff] at h
    have h' : ∀ x ∈ s, eq x v = false := fun x hx => by simpa using h x hx
    exact ⟨h', fetch_absent eq s v h'⟩

/-! ### histories -/

/-- number of operations of a history that append a value, given the starting storage -/
def appended : List α → List (Op α) → Nat
  | _, [] => 0
  | s, op :: ops => ((step eq s op).1.length - s.length) + appended (step eq s op).1 ops

/-- **C19 (histories).** For every history from every storage: the final storage extends the initial one (so
every earlier token still yields its value); its length is the initial length plus the number of appending
operations (indices are dense in insertion order: the n-th appended value has index `s.length + n - 1`);
and every returned token designates a stored value. -/
theorem C19_run (s : List α) (ops : List (Op α)) :
    (∃ suf, (run eq s ops).1 = s ++ suf) ∧
    (run eq s ops).1.length = s.length + appended eq s ops ∧
    (∀ t ∈ (run eq s ops).2, t < (run eq s ops).1.length) := by
  induction ops generalizing s with
  | nil => exact ⟨⟨[], by simp [run]⟩, by simp [run, appended], by simp [run]⟩
  | cons op ops ih =>
    obtain ⟨⟨suf2, h2⟩, hl, ht⟩ := ih (step eq s op).1
    obtain ⟨suf1, h1, _⟩ := step_extends eq s op
    refine ⟨⟨suf1 ++ suf2, ?_⟩, ?_, ?_⟩
    · simp only [run]; rw [h2, h1, List.append_assoc]
    · simp only [run, appended]; rw [hl, h1]; simp; omega
    · intro t htm
      simp only [run, List.mem_cons] at htm
      rcases htm with rfl | htm
      · have hv := step_token_valid eq s op
        simp only [run]
        rw [h2]; simp only [List.length_append]; omega
      · exact ht t htm

/-- **C19 (freshness).** A token returned by an append was never returned before: all earlier tokens are
below the length at the time of the append, and the append returns exactly that length. -/
theorem C19_fresh (s : List α) (ops : List (Op α)) (v : α) :
    let r := run eq s ops
    (append r.1 v).2 = r.1.length ∧ ∀ t ∈ r.2, t ≠ (append r.1 v).2 := by
  intro r
  refine ⟨rfl, ?_⟩
  intro t ht
  have := (C19_run eq s ops).2.2 t ht
  simp only [append]
  exact Nat.ne_of_lt this

/-- **C19 (stability over histories).** A token valid before a history yields the same value after it. -/
theorem C19_stable (s : List α) (ops : List (Op α)) (i : Nat) (hi : i < s.length) :
    (run eq s ops).1[i]? = s[i]? := by
  obtain ⟨suf, h⟩ := (C19_run eq s ops).1
  rw [h, List.getElem?_append_left hi]

/-- non-vacuity: an irreflexive equality (NaN-like): two fetches of the same value append twice -/
example : (run (fun (_ _ : Nat) => false) [] [.fetch 7, .fetch 7]) = ([7, 7], [0, 1]) := by decide
example : (run (fun (a b : Nat) => a == b) [] [.append 7, .append 7, .fetch 7, .fetch 8]) = ([7, 7, 8], [0, 1, 0, 2]) := by
  decide

end Rspirv.Props.C19
