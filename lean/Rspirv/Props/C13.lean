import Rspirv.Props.C12
/-!
# C13 — Builder id discipline: fresh ids, exact bound, deduplicated implicit types

Statements about the Builder model for every call history. Hypothesis throughout: the 32-bit id space is not
exhausted (the model's ids are naturals; `Builder::id()` overflows at `u32::MAX`, which no 32-bit implementation can
avoid).
-/
namespace Rspirv.Props.C13
open Rspirv Rspirv.Model

/-- `Builder::new_from_module`: continue at the header's bound -/
def fromModule (m : Module Inst) (bound : Nat) : BState := ⟨m, bound, none, none⟩

theorem start_ids : BState.new.nextId = 1 ∧ ∀ m b, (fromModule m b).nextId = b := ⟨rfl, fun _ _ => rfl⟩

theorem allocId_next (s : BState) (r : IdRule) :
    ((allocId s r).1.nextId = s.nextId ∨ ((allocId s r).1.nextId = s.nextId + 1 ∧ (allocId s r).2 = some s.nextId)) := by
  cases r with
  | none => exact Or.inl rfl
  | fresh => exact Or.inr ⟨rfl, rfl⟩
  | given o => cases o with
    | some v => exact Or.inl rfl
    | none => exact Or.inr ⟨rfl, rfl⟩

theorem insertIntoBlock_next (s : BState) (ip : InsertPoint) (i : Inst) :
    (insertIntoBlock s ip i).1.nextId = s.nextId := by
  unfold insertIntoBlock
  split
  · split <;> rfl
  · rfl

/-- **C13 (monotone counter).** Every call leaves the next-id counter unchanged or advances it by exactly one. -/
theorem step_next (B : BTables) (s : BState) (c : Call) :
    (s.step B c).1.nextId = s.nextId ∨ (s.step B c).1.nextId = s.nextId + 1 := by
  cases c with
  | id => exact Or.inr rfl
  | beginFunction rt fid ct ft =>
    simp only [BState.step]; split
    · exact Or.inl rfl
    · cases fid <;> simp
  | endFunction =>
    simp only [BState.step]; split
    · exact Or.inl rfl
    · split <;> exact Or.inl rfl
  | functionParameter rt =>
    simp only [BState.step]; split
    · exact Or.inl rfl
    · split <;> exact Or.inr rfl
  | beginBlock l =>
    simp only [BState.step]; split
    · exact Or.inl rfl
    · split
      · exact Or.inl rfl
      · cases l <;> (simp only; split <;> simp)
  | beginBlockNoLabel l =>
    simp only [BState.step]; split
    · exact Or.inl rfl
    · split
      · exact Or.inl rfl
      · cases l <;> (simp only; split <;> simp)
  | blockInst ip op rt rule ops =>
    simp only [BState.step]
    have h1 := insertIntoBlock_next (allocId s rule).1 ip ⟨op, rt, (allocId s rule).2, ops⟩
    have h2 := allocId_next s rule
    generalize insertIntoBlock (allocId s rule).1 ip ⟨op, rt, (allocId s rule).2, ops⟩ = r at h1
    obtain ⟨r1, r2⟩ := r
    simp only at h1
    rcases h2 with h2 | h2
    · cases r2 <;> simp only <;> exact Or.inl (h1.trans h2)
    · cases r2 <;> simp only <;> exact Or.inr (h1.trans h2.1)
  | terminator ip op ops =>
    simp only [BState.step]; split
    · have h1 := insertIntoBlock_next s ip ⟨op, none, none, ops⟩
      generalize insertIntoBlock s ip ⟨op, none, none, ops⟩ = r at h1
      obtain ⟨r1, r2⟩ := r
      cases r2 <;> exact Or.inl h1
    · exact Or.inl rfl
  | moduleInst k op rt rule ops =>
    simp only [BState.step]
    rcases allocId_next s rule with h2 | h2
    · exact Or.inl h2
    · exact Or.inr h2.1
  | varUndef op rt rid ops =>
    simp only [BState.step]
    cases rid with
    | some v =>
      simp only
      split
      · split <;> simp
      · simp
    | none =>
      simp only
      split
      · split <;> simp
      · simp
  | lineLike op ops =>
    simp only [BState.step]; split
    · have h1 := insertIntoBlock_next s .end_ ⟨op, none, none, ops⟩
      generalize insertIntoBlock s .end_ ⟨op, none, none, ops⟩ = r at h1
      obtain ⟨r1, r2⟩ := r
      cases r2 <;> exact Or.inl h1
    · exact Or.inl rfl
  | typeRequest op rid ops =>
    simp only [BState.step]
    cases rid with
    | some v => exact Or.inl rfl
    | none => simp only; split <;> simp
  | insertTGV ip i => simp only [BState.step]; split <;> exact Or.inl rfl
  | insertRaw ip i => exact Or.inl (insertIntoBlock_next s ip i)
  | setVersion a b => exact Or.inl rfl
  | selectFunction i =>
    cases i with
    | none => exact Or.inl rfl
    | some i => simp only [BState.step]; split <;> exact Or.inl rfl
  | selectByName nm =>
    simp only [BState.step]
    split
    · split <;> exact Or.inl rfl
    · exact Or.inl rfl
    · exact Or.inl rfl
  | selectBlock i =>
    cases i with
    | none => exact Or.inl rfl
    | some i =>
      simp only [BState.step]; split
      · exact Or.inl rfl
      · split
        · exact Or.inl rfl
        · split <;> exact Or.inl rfl
  | popInstruction =>
    simp only [BState.step]
    split
    · split
      · exact Or.inl rfl
      · split
        · exact Or.inl rfl
        · split <;> exact Or.inl rfl
    · exact Or.inl rfl

/-- ids allocated by `self.id()` along a history, in order: the old counter value at every advancing step -/
def freshIds (B : BTables) : BState → List Call → List Nat
  | _, [] => []
  | s, c :: cs =>
    (if (s.step B c).1.nextId = s.nextId + 1 then [s.nextId] else []) ++ freshIds B (s.step B c).1 cs

def finalNext (B : BTables) : BState → List Call → Nat
  | s, [] => s.nextId
  | s, c :: cs => finalNext B (s.step B c).1 cs

/-- **C13 (fresh ids).** Along any history the allocated ids are exactly the consecutive numbers from the starting
counter up to (excluding) the final counter: pairwise distinct, strictly increasing, starting at 1 for a new builder
and at the header bound for a continued module. -/
theorem C13_fresh (B : BTables) : ∀ (cs : List Call) (s : BState),
    freshIds B s cs = List.range' s.nextId (finalNext B s cs - s.nextId) ∧ s.nextId ≤ finalNext B s cs
  | [], s => by simp [freshIds, finalNext]
  | c :: cs, s => by
    obtain ⟨ih, hle⟩ := C13_fresh B cs (s.step B c).1
    simp only [freshIds, finalNext]
    rcases step_next B s c with h | h
    · rw [h] at ih hle
      have : ¬ ((s.step B c).1.nextId = s.nextId + 1) := by omega
      simp only [this, if_false, List.nil_append]
      exact ⟨ih, hle⟩
    · rw [h] at ih hle
      simp only [h, if_true]
      refine ⟨?_, by omega⟩
      rw [ih]
      have : finalNext B (s.step B c).1 cs - s.nextId = (finalNext B (s.step B c).1 cs - (s.nextId + 1)) + 1 := by omega
      rw [this, List.range'_succ]
      simp

/-- **C13 (bound).** `module()` writes the next id that would be allocated into the header bound; hence the bound
exceeds every id allocated along the history. -/
theorem C13_bound (B : BTables) (s : BState) :
    ((s.finish B).header.map (·.bound)) = some s.nextId := by
  unfold BState.finish
  cases s.module.header <;> rfl

theorem C13_bound_exceeds (B : BTables) (cs : List Call) (s : BState) :
    ∀ i ∈ freshIds B s cs, i < finalNext B s cs := by
  intro i hi
  rw [(C13_fresh B cs s).1] at hi
  have := (C13_fresh B cs s).2
  simp only [List.mem_range'_1] at hi
  omega

/-! ### type requests -/

def typeKeyMatch (op : Nat) (ops : List Operand) (t : Inst) : Option Nat :=
  if t.opcode == op && t.operands == ops then t.rid else none

/-- **C13 (type requests).** Without an explicit id: if an earlier declaration in `types_global_values` has the same
opcode and operands (and a result id) the request returns that id and changes nothing; otherwise exactly one
declaration with a fresh id is appended. With an explicit id: a declaration carrying that id is always appended. -/
theorem C13_typeRequest (B : BTables) (s : BState) (op : Nat) (ops : List Operand) :
    (∀ v, s.step B (.typeRequest op (some v) ops) =
      ({ s with module := s.module.push 10 ⟨op, none, some v, ops⟩ }, .id v)) ∧
    (∀ id, s.module.typesGlobalValues.findSome? (typeKeyMatch op ops) = some id →
      s.step B (.typeRequest op none ops) = (s, .id id)) ∧
    (s.module.typesGlobalValues.findSome? (typeKeyMatch op ops) = none →
      s.step B (.typeRequest op none ops) =
        ({ s with nextId := s.nextId + 1, module := s.module.push 10 ⟨op, none, some s.nextId, ops⟩ }, .id s.nextId)) := by
  refine ⟨fun v => rfl, ?_, ?_⟩
  · intro id h
    simp only [BState.step]
    have : s.module.typesGlobalValues.findSome? (fun t => if t.opcode == op && t.operands == ops then t.rid else none) = some id := h
    rw [this]
  · intro h
    simp only [BState.step]
    have : s.module.typesGlobalValues.findSome? (fun t => if t.opcode == op && t.operands == ops then t.rid else none) = none := h
    rw [this]

/-- the id returned for an existing declaration is the result id of the FIRST identical one -/
theorem C13_dedup_first (tgv : List Inst) (op : Nat) (ops : List Operand) (id : Nat)
    (h : tgv.findSome? (typeKeyMatch op ops) = some id) :
    ∃ t ∈ tgv, t.opcode = op ∧ t.operands = ops ∧ t.rid = some id := by
  obtain ⟨t, ht, hm⟩ := List.exists_of_findSome?_eq_some h
  refine ⟨t, ht, ?_⟩
  unfold typeKeyMatch at hm
  split at hm
  · rename_i hc
    simp only [Bool.and_eq_true, beq_iff_eq] at hc
    exact ⟨hc.1, hc.2, hm⟩
  · cases hm

theorem tgv_push10 (m : Module Inst) (i : Inst) : (m.push 10 i).typesGlobalValues = m.typesGlobalValues ++ [i] := rfl

/-- keys (opcode, operands) of the declarations in `types_global_values` that carry a result id -/
def keys (tgv : List Inst) : List (Nat × List Operand) := (tgv.filter (·.rid.isSome)).map (fun t => (t.opcode, t.operands))

/-- **C13 (no duplicate implicit types).** If every declaration so far was requested implicitly (no two declarations
with the same opcode and operands), an implicit request keeps it that way. By induction a module whose types were all
requested implicitly never contains two identical type declarations. -/
theorem C13_nodup_step (B : BTables) (s : BState) (op : Nat) (ops : List Operand)
    (hn : (keys s.module.typesGlobalValues).Nodup) :
    (keys (s.step B (.typeRequest op none ops)).1.module.typesGlobalValues).Nodup := by
  cases hf : s.module.typesGlobalValues.findSome? (typeKeyMatch op ops) with
  | some id => rw [(C13_typeRequest B s op ops).2.1 id hf]; exact hn
  | none =>
    rw [(C13_typeRequest B s op ops).2.2 hf]
    simp only [tgv_push10, keys, List.filter_append, List.map_append, List.filter_cons, List.filter_nil,
      Option.isSome_some, if_true, List.map_cons, List.map_nil]
    rw [List.nodup_append]
    refine ⟨hn, by simp, ?_⟩
    intro a ha b hb
    simp only [List.mem_singleton] at hb
    subst hb
    intro heq
    subst heq
    -- a declaration with this key and a result id exists, contradicting `findSome? = none`
    obtain ⟨t, ht, hk⟩ := List.mem_map.1 ha
    obtain ⟨htm, hr⟩ := List.mem_filter.1 ht
    have := List.findSome?_eq_none_iff.1 hf t htm
    simp only [Prod.mk.injEq] at hk
    unfold typeKeyMatch at this
    simp only [hk.1, hk.2, beq_self_eq_true, Bool.and_self, if_true] at this
    rw [this] at hr; cases hr

theorem C13_nodup_run (B : BTables) : ∀ (reqs : List (Nat × List Operand)) (s : BState),
    (keys s.module.typesGlobalValues).Nodup →
    (keys (BState.run B s (reqs.map (fun r => Call.typeRequest r.1 none r.2))).1.module.typesGlobalValues).Nodup
  | [], s, h => h
  | r :: rs, s, h => by
    simp only [List.map_cons, BState.run]
    exact C13_nodup_run B rs _ (C13_nodup_step B s r.1 r.2 h)

/-- non-vacuity: the same request twice returns the same id and adds one declaration; a different request gets a
different id -/
example :
    (BState.run ⟨54, 56, 55, 248, 5, 4, 58, 0, 0⟩ BState.new [.typeRequest 21 none [.w 59 32, .w 59 0], .typeRequest 21 none [.w 59 32, .w 59 0],
      .typeRequest 21 none [.w 59 32, .w 59 1]]).2 = [.id 1, .id 1, .id 2] := by
  decide

end Rspirv.Props.C13
