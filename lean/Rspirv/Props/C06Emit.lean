import Rspirv.Props.C06Typed
/-!
# C06 — what a Builder history puts into the module

`step_mem`: every instruction of the module after a Builder call was in the module before the call, or is the
instruction that call emits (`emitted`: built from the call's own arguments and the id the builder hands out).
`run_all`: so a property of instructions that holds for what every call of a history emits holds for every instruction of the
module the history builds. With `C06_roundtrip_typed` and `call_typed`: **a complete plain history of calls whose emitted
instructions conform to the grammar by their own fields survives assemble-then-load unchanged** (`C06_typed_history`) — the
hypotheses are about the arguments of the calls only.
-/
namespace Rspirv.Props.C06Emit
open Rspirv Rspirv.Model Rspirv.Model.Typed Rspirv.Instances Rspirv.Props.C02 Rspirv.Props.C06Round Rspirv.Props.C06End
  Rspirv.Props.C06Typed

/-- the instructions of a function -/
def fnInsts (f : Function Inst) : List Inst :=
  f.def_.toList ++ f.params ++ f.blocks.flatMap (fun b => b.label.toList ++ b.insts) ++ f.end_.toList

/-- membership in the traversal, section by section -/
def Mem (m : Module Inst) (i : Inst) : Prop :=
  i ∈ m.capabilities ∨ i ∈ m.extensions ∨ i ∈ m.extInstImports ∨ i ∈ m.memoryModel.toList ∨ i ∈ m.entryPoints ∨
  i ∈ m.executionModes ∨ i ∈ m.debugStringSource ∨ i ∈ m.debugNames ∨ i ∈ m.debugModuleProcessed ∨ i ∈ m.annotations ∨
  i ∈ m.typesGlobalValues ∨ ∃ f ∈ m.functions, i ∈ fnInsts f

theorem mem_iff (m : Module Inst) (i : Inst) : i ∈ Rspirv.Props.C15.allInstIter m ↔ Mem m i := by
  rw [Rspirv.Props.C15.C15_explicit]
  simp only [List.mem_append, List.mem_flatMap, Mem, fnInsts, or_assoc]

/-- the instruction(s) a call can add, with the result id the builder would hand out in state `s` -/
def emitted (B : BTables) (s : BState) : Call → List Inst
  | .beginFunction rt fid control ftype =>
    [⟨B.opFunction, some rt, some (fid.getD s.nextId), [.w B.vFunctionControl control, .w B.vIdRef ftype]⟩]
  | .endFunction => [⟨B.opFunctionEnd, none, none, []⟩]
  | .functionParameter rt => [⟨B.opFunctionParameter, some rt, some s.nextId, []⟩]
  | .beginBlock label => [⟨B.opLabel, none, some (label.getD s.nextId), []⟩]
  | .blockInst _ opcode rtype rule ops => [⟨opcode, rtype, (allocId s rule).2, ops⟩]
  | .terminator _ opcode ops => [⟨opcode, none, none, ops⟩]
  | .moduleInst _ opcode rtype rule ops => [⟨opcode, rtype, (allocId s rule).2, ops⟩]
  | .varUndef opcode rt rid ops => [⟨opcode, some rt, some (rid.getD s.nextId), ops⟩]
  | .lineLike opcode ops => [⟨opcode, none, none, ops⟩]
  | .typeRequest opcode rid ops => [⟨opcode, none, some (rid.getD s.nextId), ops⟩]
  | .insertTGV _ i => [i]
  | .insertRaw _ i => [i]
  | _ => []

/-- `m'` holds nothing but what `m` holds and `x` -/
def Adds (m m' : Module Inst) (x : List Inst) : Prop := ∀ i, Mem m' i → Mem m i ∨ i ∈ x

theorem adds_refl (m : Module Inst) (x : List Inst) : Adds m m x := fun _ h => Or.inl h

theorem adds_push (m : Module Inst) (k : Nat) (i : Inst) : Adds m (m.push k i) [i] := by
  intro j hj
  unfold Module.push at hj
  unfold Mem at hj ⊢
  split at hj <;> simp only [List.mem_append, List.mem_singleton, Option.toList, List.mem_cons, List.not_mem_nil,
    or_false] at hj ⊢ <;> grind

theorem adds_functions (m : Module Inst) (fs : List (Function Inst)) (x : List Inst)
    (h : ∀ f ∈ fs, ∀ i ∈ fnInsts f, (∃ g ∈ m.functions, i ∈ fnInsts g) ∨ i ∈ x) :
    Adds m { m with functions := fs } x := by
  intro j hj
  unfold Mem at hj ⊢
  dsimp only at hj
  rcases hj with h1 | h1 | h1 | h1 | h1 | h1 | h1 | h1 | h1 | h1 | h1 | ⟨f, hf, hi⟩
  · grind
  · grind
  · grind
  · grind
  · grind
  · grind
  · grind
  · grind
  · grind
  · grind
  · grind
  · rcases h f hf j hi with h2 | h2
    · grind
    · exact Or.inr h2

theorem adds_mono {m m' : Module Inst} {x y : List Inst} (h : Adds m m' x) (hxy : ∀ i ∈ x, i ∈ y) : Adds m m' y :=
  fun i hi => (h i hi).imp id (hxy i)

theorem adds_fn_set (m : Module Inst) (k : Nat) (f f' : Function Inst) (x : List Inst) (hk : m.functions[k]? = some f)
    (h : ∀ i ∈ fnInsts f', i ∈ fnInsts f ∨ i ∈ x) : Adds m { m with functions := m.functions.set k f' } x := by
  apply adds_functions
  intro g hg i hi
  rcases List.mem_or_eq_of_mem_set hg with hg | rfl
  · exact Or.inl ⟨g, hg, hi⟩
  · rcases h i hi with h1 | h1
    · exact Or.inl ⟨f, List.mem_of_getElem? hk, h1⟩
    · exact Or.inr h1

theorem adds_fn_append (m : Module Inst) (f : Function Inst) :
    Adds m { m with functions := m.functions ++ [f] } (fnInsts f) := by
  apply adds_functions
  intro g hg i hi
  rcases List.mem_append.1 hg with hg | hg
  · exact Or.inl ⟨g, hg, hi⟩
  · simp only [List.mem_singleton] at hg
    subst hg
    exact Or.inr hi

theorem fnInsts_blocks (fn : Function Inst) (bs : List (Block Inst)) (x : List Inst)
    (h : ∀ b ∈ bs, ∀ i ∈ b.label.toList ++ b.insts, (∃ b0 ∈ fn.blocks, i ∈ b0.label.toList ++ b0.insts) ∨ i ∈ x) :
    ∀ i ∈ fnInsts { fn with blocks := bs }, i ∈ fnInsts fn ∨ i ∈ x := by
  intro i hi
  simp only [fnInsts, List.mem_append, List.mem_flatMap] at hi ⊢
  rcases hi with ((h1 | h1) | ⟨b, hb, hib⟩) | h1
  · exact Or.inl (Or.inl (Or.inl (Or.inl h1)))
  · exact Or.inl (Or.inl (Or.inl (Or.inr h1)))
  · rcases h b hb i (by simpa using hib) with ⟨b0, hb0, h0⟩ | h2
    · exact Or.inl (Or.inl (Or.inr ⟨b0, hb0, by simpa using h0⟩))
    · exact Or.inr h2
  · exact Or.inl (Or.inr h1)

theorem updBlock_adds (m m' : Module Inst) (f b : Nat) (g : Block Inst → Option (Block Inst)) (x : List Inst)
    (h : updBlock m f b g = some m')
    (hg : ∀ blk blk', g blk = some blk' → ∀ i ∈ blk'.label.toList ++ blk'.insts, i ∈ blk.label.toList ++ blk.insts ∨ i ∈ x) :
    Adds m m' x := by
  unfold updBlock at h
  cases hf : m.functions[f]? with
  | none => rw [hf] at h; cases h
  | some fn =>
    rw [hf] at h
    dsimp only at h
    cases hb : fn.blocks[b]? with
    | none => rw [hb] at h; cases h
    | some blk =>
      rw [hb] at h
      dsimp only at h
      cases hgb : g blk with
      | none => rw [hgb] at h; cases h
      | some blk' =>
        rw [hgb] at h
        cases h
        apply adds_fn_set m f fn _ x hf
        apply fnInsts_blocks
        intro b1 hb1 i hi
        rcases List.mem_or_eq_of_mem_set hb1 with hb1 | rfl
        · exact Or.inl ⟨b1, hb1, hi⟩
        · rcases hg blk b1 hgb i hi with h1 | h1
          · exact Or.inl ⟨blk, List.mem_of_getElem? hb, h1⟩
          · exact Or.inr h1

theorem insertIntoBlock_adds (s : BState) (ip : InsertPoint) (i : Inst) :
    Adds s.module (insertIntoBlock s ip i).1.module [i] := by
  unfold insertIntoBlock
  split
  · split
    · rename_i m' hm
      dsimp only
      apply updBlock_adds _ _ _ _ _ _ hm
      intro blk blk' hb j hj
      simp only [Option.map_eq_some_iff] at hb
      obtain ⟨l, hl, rfl⟩ := hb
      simp only [List.mem_append] at hj ⊢
      rcases hj with hj | hj
      · exact Or.inl (Or.inl hj)
      · rcases insertAt_mem _ _ _ _ hl j hj with h1 | h1
        · exact Or.inl (Or.inr h1)
        · exact Or.inr (by simp [h1])
    · exact adds_refl _ _
  · exact adds_refl _ _

theorem allocId_module (s : BState) (r : IdRule) : (allocId s r).1.module = s.module := by
  cases r with
  | none => rfl
  | fresh => rfl
  | given o => cases o <;> rfl

/-- the module after a call that goes through `insert_into_block` -/
theorem iib_module (r : BState × BOut) (f g : BState → BOut → BState × BOut)
    (hf : ∀ s2 o, (f s2 o).1.module = s2.module) : (f r.1 r.2).1.module = r.1.module := hf _ _

theorem blockInst_module (B : BTables) (s : BState) (ip : InsertPoint) (opcode : Nat) (rtype : Option Nat) (rule : IdRule)
    (ops : List Operand) :
    (s.step B (.blockInst ip opcode rtype rule ops)).1.module =
      (insertIntoBlock (allocId s rule).1 ip ⟨opcode, rtype, (allocId s rule).2, ops⟩).1.module := by
  simp only [BState.step]
  cases h : insertIntoBlock (allocId s rule).1 ip ⟨opcode, rtype, (allocId s rule).2, ops⟩ with
  | mk s2 o => cases o <;> rfl

theorem terminator_module (B : BTables) (s : BState) (ip : InsertPoint) (opcode : Nat) (ops : List Operand) :
    (s.step B (.terminator ip opcode ops)).1.module = s.module ∨
    (s.step B (.terminator ip opcode ops)).1.module = (insertIntoBlock s ip ⟨opcode, none, none, ops⟩).1.module := by
  simp only [BState.step]
  split
  · right
    cases h : insertIntoBlock s ip ⟨opcode, none, none, ops⟩ with
    | mk s2 o => cases o <;> rfl
  · left; rfl

theorem lineLike_module (B : BTables) (s : BState) (opcode : Nat) (ops : List Operand) :
    (s.step B (.lineLike opcode ops)).1.module = (insertIntoBlock s .end_ ⟨opcode, none, none, ops⟩).1.module ∨
    (s.step B (.lineLike opcode ops)).1.module = s.module.push 10 ⟨opcode, none, none, ops⟩ := by
  simp only [BState.step]
  split
  · left
    cases h : insertIntoBlock s .end_ ⟨opcode, none, none, ops⟩ with
    | mk s2 o => cases o <;> rfl
  · right; rfl

theorem adds_alloc {s : BState} {rule : IdRule} {m' : Module Inst} {x : List Inst}
    (h : Adds (allocId s rule).1.module m' x) : Adds s.module m' x := by
  rw [allocId_module] at h; exact h

/-- **what a call adds.** Every instruction of the module after a Builder call was there before, or is the instruction the
call emits. -/
theorem step_mem (B : BTables) (s : BState) (c : Call) : Adds s.module (s.step B c).1.module (emitted B s c) := by
  cases c with
  | id => exact adds_refl _ _
  | beginFunction rt fid control ftype =>
    cases fid with
    | some v =>
      simp only [BState.step]
      split
      · exact adds_refl _ _
      · exact adds_mono (adds_fn_append _ _) (by intro i hi; simpa [fnInsts, emitted] using hi)
    | none =>
      simp only [BState.step]
      split
      · exact adds_refl _ _
      · exact adds_mono (adds_fn_append _ _) (by intro i hi; simpa [fnInsts, emitted] using hi)
  | endFunction =>
    simp only [BState.step]
    split
    · exact adds_refl _ _
    · rename_i f _
      split
      · exact adds_refl _ _
      · rename_i fn hfn
        apply adds_fn_set _ f fn _ _ hfn
        intro i hi
        simp only [fnInsts, List.mem_append, Option.toList, List.mem_singleton] at hi ⊢
        rcases hi with ((h1 | h1) | h1) | h1
        · exact Or.inl (Or.inl (Or.inl (Or.inl h1)))
        · exact Or.inl (Or.inl (Or.inl (Or.inr h1)))
        · exact Or.inl (Or.inl (Or.inr h1))
        · exact Or.inr (by simpa [emitted] using h1)
  | functionParameter rt =>
    simp only [BState.step]
    split
    · exact adds_refl _ _
    · rename_i f _
      split
      · exact adds_refl _ _
      · rename_i fn hfn
        apply adds_fn_set _ f fn _ _ hfn
        intro i hi
        simp only [fnInsts, List.mem_append, List.mem_singleton] at hi ⊢
        rcases hi with ((h1 | (h1 | h1)) | h1) | h1
        · exact Or.inl (Or.inl (Or.inl (Or.inl h1)))
        · exact Or.inl (Or.inl (Or.inl (Or.inr h1)))
        · exact Or.inr (by simp [emitted, h1])
        · exact Or.inl (Or.inl (Or.inr h1))
        · exact Or.inl (Or.inr h1)
  | beginBlock label =>
    cases label with
    | some v =>
      simp only [BState.step]
      split
      · exact adds_refl _ _
      · rename_i f _
        split
        · exact adds_refl _ _
        · split
          · exact adds_refl _ _
          · rename_i fn hfn
            apply adds_fn_set _ f fn _ _ hfn
            apply fnInsts_blocks
            intro b hb i hi
            rcases List.mem_append.1 hb with hb | hb
            · exact Or.inl ⟨b, hb, hi⟩
            · simp only [List.mem_singleton] at hb
              subst hb
              exact Or.inr (by simpa [emitted] using hi)
    | none =>
      simp only [BState.step]
      split
      · exact adds_refl _ _
      · rename_i f _
        split
        · exact adds_refl _ _
        · split
          · exact adds_refl _ _
          · rename_i fn hfn
            apply adds_fn_set _ f fn _ _ hfn
            apply fnInsts_blocks
            intro b hb i hi
            rcases List.mem_append.1 hb with hb | hb
            · exact Or.inl ⟨b, hb, hi⟩
            · simp only [List.mem_singleton] at hb
              subst hb
              exact Or.inr (by simpa [emitted] using hi)
  | beginBlockNoLabel label =>
    cases label with
    | some v =>
      simp only [BState.step]
      split
      · exact adds_refl _ _
      · rename_i f _
        split
        · exact adds_refl _ _
        · split
          · exact adds_refl _ _
          · rename_i fn hfn
            apply adds_fn_set _ f fn _ _ hfn
            apply fnInsts_blocks
            intro b hb i hi
            rcases List.mem_append.1 hb with hb | hb
            · exact Or.inl ⟨b, hb, hi⟩
            · simp only [List.mem_singleton] at hb
              subst hb
              simp at hi
    | none =>
      simp only [BState.step]
      split
      · exact adds_refl _ _
      · rename_i f _
        split
        · exact adds_refl _ _
        · split
          · exact adds_refl _ _
          · rename_i fn hfn
            apply adds_fn_set _ f fn _ _ hfn
            apply fnInsts_blocks
            intro b hb i hi
            rcases List.mem_append.1 hb with hb | hb
            · exact Or.inl ⟨b, hb, hi⟩
            · simp only [List.mem_singleton] at hb
              subst hb
              simp at hi
  | blockInst ip opcode rtype rule ops =>
    rw [blockInst_module]
    exact adds_mono (adds_alloc (insertIntoBlock_adds _ ip _)) (by intro i hi; simpa [emitted] using hi)
  | terminator ip opcode ops =>
    rcases terminator_module B s ip opcode ops with h | h <;> rw [h]
    · exact adds_refl _ _
    · exact adds_mono (insertIntoBlock_adds s ip _) (by intro i hi; simpa [emitted] using hi)
  | moduleInst k opcode rtype rule ops =>
    simp only [BState.step]
    exact adds_mono (adds_alloc (adds_push _ k _)) (by intro i hi; simpa [emitted] using hi)
  | varUndef opcode rt rid ops =>
    cases rid with
    | some v =>
      simp only [BState.step]
      split
      · split
        · rename_i m' hm
          apply updBlock_adds _ _ _ _ _ _ hm
          intro blk blk' hb j hj
          cases hb
          simp only [List.mem_append, List.mem_singleton] at hj ⊢
          rcases hj with hj | hj | hj
          · exact Or.inl (Or.inl hj)
          · exact Or.inl (Or.inr hj)
          · exact Or.inr (by simp [emitted, hj])
        · exact adds_refl _ _
      · exact adds_mono (adds_push _ _ _) (by intro i hi; simpa [emitted] using hi)
    | none =>
      simp only [BState.step]
      split
      · split
        · rename_i m' hm
          apply updBlock_adds _ _ _ _ _ _ hm
          intro blk blk' hb j hj
          cases hb
          simp only [List.mem_append, List.mem_singleton] at hj ⊢
          rcases hj with hj | hj | hj
          · exact Or.inl (Or.inl hj)
          · exact Or.inl (Or.inr hj)
          · exact Or.inr (by simp [emitted, hj])
        · exact adds_refl _ _
      · exact adds_mono (adds_push _ _ _) (by intro i hi; simpa [emitted] using hi)
  | lineLike opcode ops =>
    rcases lineLike_module B s opcode ops with h | h <;> rw [h]
    · exact adds_mono (insertIntoBlock_adds s .end_ _) (by intro i hi; simpa [emitted] using hi)
    · exact adds_mono (adds_push _ _ _) (by intro i hi; simpa [emitted] using hi)
  | typeRequest opcode rid ops =>
    cases rid with
    | some v =>
      simp only [BState.step]
      exact adds_mono (adds_push _ _ _) (by intro i hi; simpa [emitted] using hi)
    | none =>
      simp only [BState.step]
      split
      · exact adds_refl _ _
      · exact adds_mono (adds_push _ _ _) (by intro i hi; simpa [emitted] using hi)
  | insertTGV ip i =>
    simp only [BState.step]
    split
    · rename_i l hl
      intro j hj
      unfold Mem at hj ⊢
      dsimp only at hj
      rcases hj with h1 | h1 | h1 | h1 | h1 | h1 | h1 | h1 | h1 | h1 | h1 | h1
      · grind
      · grind
      · grind
      · grind
      · grind
      · grind
      · grind
      · grind
      · grind
      · grind
      · rcases insertAt_mem _ _ _ _ hl j h1 with h2 | h2
        · grind
        · exact Or.inr (by simp [emitted, h2])
      · grind
    · exact adds_refl _ _
  | insertRaw ip i =>
    simp only [BState.step]
    exact adds_mono (insertIntoBlock_adds s ip i) (by intro j hj; simpa [emitted] using hj)
  | setVersion major minor =>
    simp only [BState.step]
    intro j hj
    exact Or.inl hj
  | selectFunction o =>
    cases o with
    | none => exact adds_refl _ _
    | some i =>
      simp only [BState.step]
      split <;> exact adds_refl _ _
  | selectBlock o =>
    cases o with
    | none => exact adds_refl _ _
    | some i =>
      simp only [BState.step]
      split
      · exact adds_refl _ _
      · split
        · exact adds_refl _ _
        · split <;> exact adds_refl _ _
  | selectByName nm =>
    simp only [BState.step]
    split
    · split <;> exact adds_refl _ _
    · exact adds_refl _ _
    · exact adds_refl _ _
  | popInstruction =>
    simp only [BState.step]
    split
    · rename_i f b _ _
      split
      · exact adds_refl _ _
      · rename_i fn hfn
        split
        · exact adds_refl _ _
        · rename_i blk hblk
          split
          · exact adds_refl _ _
          · apply adds_fn_set _ f fn _ _ hfn
            apply fnInsts_blocks
            intro b1 hb1 i hi
            rcases List.mem_or_eq_of_mem_set hb1 with hb1 | rfl
            · exact Or.inl ⟨b1, hb1, hi⟩
            · refine Or.inl ⟨blk, List.mem_of_getElem? hblk, ?_⟩
              simp only [List.mem_append] at hi ⊢
              rcases hi with hi | hi
              · exact Or.inl hi
              · exact Or.inr (List.dropLast_subset _ hi)
    · exact adds_refl _ _

/-- every call of the history, in the state it is made in, emits only instructions satisfying `P` -/
def EmitsP (B : BTables) (P : Inst → Prop) : BState → List Call → Prop
  | _, [] => True
  | s, c :: cs => (∀ i ∈ emitted B s c, P i) ∧ EmitsP B P (s.step B c).1 cs

theorem run_all (B : BTables) (P : Inst → Prop) : ∀ (cs : List Call) (s : BState), (∀ i, Mem s.module i → P i) →
    EmitsP B P s cs → ∀ i, Mem (BState.run B s cs).1.module i → P i
  | [], s, h0, _ => by simpa [BState.run] using h0
  | c :: cs, s, h0, he => by
    obtain ⟨h1, h2⟩ := he
    have hstep : ∀ i, Mem (s.step B c).1.module i → P i := by
      intro i hi
      rcases step_mem B s c i hi with h | h
      · exact h0 i h
      · exact h1 i h
    have := run_all B P cs (s.step B c).1 hstep h2
    simpa [BState.run] using this

theorem mem_finish (B : BTables) (s : BState) (i : Inst) : Mem (s.finish B) i ↔ Mem s.module i := by
  unfold BState.finish
  split <;> rfl

theorem mem_new (i : Inst) : ¬ Mem BState.new.module i := by
  simp [Mem, BState.new, fnInsts]

/-- **C06 for histories of typed calls.** A complete plain history from a new builder in which every call emits an instruction
that conforms to the grammar by its own fields (`InstT0`, e.g. by `call_typed`) and assembles to 32-bit words: the module
`Builder::module()` returns is read back unchanged by `load_bytes` from the bytes of its assembly. The hypotheses speak about
the calls of the history only (and about the size of the output). -/
theorem C06_typed_history (cs : List Call) (hp : PlainRun theLTables theBTables BState.new cs)
    (hc : (BState.run theBTables BState.new cs).1.selFn = none)
    (he : EmitsP theBTables (fun i => InstT0 theTables i ∧ WordsOk (assembleInst i)) BState.new cs)
    (hw : WordsOk (Rspirv.Props.C15.assemble assembleInst ((BState.run theBTables BState.new cs).1.finish theBTables)))
    (hsmall : 4 * (Rspirv.Props.C15.assemble assembleInst ((BState.run theBTables BState.new cs).1.finish theBTables)).length < 2 ^ 63) :
    loadBytes theTables theLTables
        ((Rspirv.Props.C15.assemble assembleInst ((BState.run theBTables BState.new cs).1.finish theBTables)).flatMap Spec.wordBytes) =
      .ok ((BState.run theBTables BState.new cs).1.finish theBTables) := by
  apply C06_roundtrip_typed cs hp hc ?_ hw hsmall
  intro i hi
  rw [mem_iff, mem_finish] at hi
  exact run_all theBTables _ cs BState.new (fun j hj => absurd hj (mem_new j)) he i hi

/-- the words of the assembled module are 32-bit words as soon as the emitted instructions' words are and the id counter fits 32 bits -/
theorem assemble_wordsOk (cs : List Call) (hp : PlainRun theLTables theBTables BState.new cs)
    (he : EmitsP theBTables (fun i => InstT0 theTables i ∧ WordsOk (assembleInst i)) BState.new cs)
    (hid : (BState.run theBTables BState.new cs).1.nextId < 4294967296) :
    WordsOk (Rspirv.Props.C15.assemble assembleInst ((BState.run theBTables BState.new cs).1.finish theBTables)) := by
  have hh := run_hdr theLTables theBTables default_version_normal cs BState.new trivial hp
  obtain ⟨hd, e1, e2, e3, e4, e5, e6⟩ := finish_hdr theBTables default_version_normal _ hh
  rw [Rspirv.Props.C15.C15_assemble, e1]
  intro w hw
  rcases List.mem_append.1 hw with hw | hw
  · have hasm : Header.asm Rspirv.Generated.Traversals.asmHeader hd = [hd.magic, hd.version, hd.generator, hd.bound, hd.reserved] := by
      have : Rspirv.Generated.Traversals.asmHeader = [0, 1, 2, 3, 4] := by decide
      rw [this]; rfl
    simp only [Option.map_some, Option.getD_some, hasm, List.mem_cons, List.not_mem_nil, or_false] at hw
    have hmag : theBTables.magic < 4294967296 := by decide +kernel
    unfold VersionNormal at e5
    rcases hw with rfl | rfl | rfl | rfl | rfl
    · rw [e2]; exact hmag
    · omega
    · rw [e3]; decide
    · rw [e6]; exact hid
    · rw [e4]; decide
  · obtain ⟨i, hi, hwi⟩ := List.mem_flatMap.1 hw
    rw [mem_iff, mem_finish] at hi
    exact (run_all theBTables _ cs BState.new (fun j hj => absurd hj (mem_new j)) he i hi).2 w hwi

/-- **C06 for histories of typed calls, hypotheses on the history only.** -/
theorem C06_typed_history' (cs : List Call) (hp : PlainRun theLTables theBTables BState.new cs)
    (hc : (BState.run theBTables BState.new cs).1.selFn = none)
    (he : EmitsP theBTables (fun i => InstT0 theTables i ∧ WordsOk (assembleInst i)) BState.new cs)
    (hid : (BState.run theBTables BState.new cs).1.nextId < 4294967296)
    (hsmall : 4 * (Rspirv.Props.C15.assemble assembleInst ((BState.run theBTables BState.new cs).1.finish theBTables)).length < 2 ^ 63) :
    loadBytes theTables theLTables
        ((Rspirv.Props.C15.assemble assembleInst ((BState.run theBTables BState.new cs).1.finish theBTables)).flatMap Spec.wordBytes) =
      .ok ((BState.run theBTables BState.new cs).1.finish theBTables) :=
  C06_typed_history cs hp hc he (assemble_wordsOk cs hp he hid) hsmall

end Rspirv.Props.C06Emit
