import Rspirv.Props.C01Layout
/-!
# C01 — end to end, at module level

`C01_full`: for every binary `load_bytes` accepts, with no hypothesis on its contents beyond the property's own exclusions:

* the words after the header are the concatenation of one chunk per delivered instruction, each chunk an encoding
  (`InstWords`) of its instruction (`Chunks`);
* re-assembling each of these instructions gives an encoding of it again, with the same number of words, the same first
  word, result type and result id, and — operand by operand — the same words except for the bytes behind a string's NUL
  (`reencode`, `Chunks.reencode`);
* the assembled output is the header `[magic, 0x00MMmm00, rspirv's generator, bound, 0]` followed by the encodings of a
  permutation of the delivered instructions that keeps the relative order inside every section and inside the function
  part; hence **the output has exactly as many words as the input** (`C01_full_length`).
-/
namespace Rspirv.Props.C01Full
open Rspirv Rspirv.Model Rspirv.Model.DState Rspirv.Props.C02 Rspirv.Props.C01Words Rspirv.Props.C01Layout
  Rspirv.Props.RoundTrip Rspirv.Props.C01

/-- the stream is the concatenation of one encoding per instruction -/
inductive Chunks : List Inst → List Nat → Prop
  | nil : Chunks [] []
  | cons {i : Inst} {u : List Nat} {is : List Inst} {ws : List Nat} :
      InstWords i u → Chunks is ws → Chunks (i :: is) (u ++ ws)

/-- a fully recognised stream splits into chunks -/
theorem insts_chunks (G : Tables) (good : GoodTables G) : ∀ (fuel : Nat) (τ : Tracker) (ws : List Nat),
    (Spec.insts G fuel τ ws).2 = [] → Chunks (Spec.insts G fuel τ ws).1 ws
  | 0, _, ws, h => by
    simp only [Spec.insts] at h ⊢
    subst h; exact Chunks.nil
  | fuel + 1, τ, ws, h => by
    unfold Spec.insts at h ⊢
    cases hs : Spec.inst G τ ws with
    | none =>
      rw [hs] at h
      dsimp only at h ⊢
      subst h; exact Chunks.nil
    | some p =>
      obtain ⟨i, rest⟩ := p
      rw [hs] at h
      dsimp only at h ⊢
      cases ht : τ.track G.tt i with
      | none =>
        rw [ht] at h
        dsimp only at h ⊢
        subst h; exact Chunks.nil
      | some τ1 =>
        rw [ht] at h
        dsimp only at h ⊢
        obtain ⟨used, e, hw⟩ := inst_words G good τ ws i rest hs
        rw [e]
        exact Chunks.cons hw (insts_chunks G good fuel τ1 rest h)

/-! ### the assembler's words are 32-bit words -/

theorem leWord_lt (b : List Nat) (hb : ∀ x ∈ b, x < 256) : leWord b < 4294967296 := by
  have g : ∀ k, b.getD k 0 < 256 := by
    intro k
    rw [List.getD_eq_getElem?_getD]
    cases hk : b[k]? with
    | none => simp
    | some x => simpa using hb x (List.mem_of_getElem? hk)
  have := g 0; have := g 1; have := g 2; have := g 3
  unfold leWord
  omega

theorem packStr_ok : ∀ (n : Nat) (bs : List Nat), bs.length = n → (∀ b ∈ bs, b < 256) → WordsOk (packStr bs)
  | n, bs, hn, hb => by
    match bs, hn, hb with
    | b0 :: b1 :: b2 :: b3 :: t, hn, hb =>
      rw [packStr]
      intro w hw
      rcases List.mem_cons.1 hw with rfl | hw
      · exact leWord_lt _ (fun x hx => hb x (by
          simp only [List.mem_cons, List.not_mem_nil, or_false] at hx
          rcases hx with rfl | rfl | rfl | rfl <;> simp))
      · exact packStr_ok t.length t rfl (fun x hx => hb x (by simp [hx])) w hw
    | [], _, hb => intro w hw; simp only [packStr, List.mem_cons, List.not_mem_nil, or_false] at hw; subst hw; exact leWord_lt _ hb
    | [_], _, hb => intro w hw; simp only [packStr, List.mem_cons, List.not_mem_nil, or_false] at hw; subst hw; exact leWord_lt _ hb
    | [_, _], _, hb => intro w hw; simp only [packStr, List.mem_cons, List.not_mem_nil, or_false] at hw; subst hw; exact leWord_lt _ hb
    | [_, _, _], _, hb => intro w hw; simp only [packStr, List.mem_cons, List.not_mem_nil, or_false] at hw; subst hw; exact leWord_lt _ hb

/-- the encoding of an operand that was read from 32-bit words consists of 32-bit words -/
theorem encodeOperand_ok (o : Operand) (w : List Nat) (h : OpWords o w) (hw : WordsOk w) : WordsOk (encodeOperand o) := by
  cases o with
  | w v x =>
    simp only [OpWords] at h
    subst h
    exact hw
  | q v =>
    have := opWords_ok _ _ h
    simp only [OperandOk] at this
    intro x hx
    simp only [encodeOperand, List.mem_cons, List.not_mem_nil, or_false] at hx
    rcases hx with rfl | rfl <;> omega
  | s bs => exact packStr_ok bs.length bs rfl (opWords_ok _ _ h)

theorem encOps_ok : ∀ (os : List Operand) (ws : List Nat), OpsWords os ws → WordsOk ws → WordsOk (encOps os) := by
  intro os ws h
  induction h with
  | nil => intro _ x hx; cases hx
  | @cons o os w ws' ho _ ih =>
    intro hw x hx
    rw [encOps_cons] at hx
    rcases List.mem_append.1 hx with hx | hx
    · exact encodeOperand_ok o w ho (fun y hy => hw y (List.mem_append_left _ hy)) x hx
    · exact ih (fun y hy => hw y (List.mem_append_right _ hy)) x hx

/-- **C01 (one instruction, both directions).** If `u` (32-bit words) encodes instruction `i`, then so does
`assembleInst i`; it consists of 32-bit words, has the same length, the same first word, the same result type and result id
words; and its operand words encode the same operand list (`opWords_agree` then gives word-for-word equality except behind
a string's NUL). -/
theorem reencode (i : Inst) (u : List Nat) (hu : InstWords i u) (hw : WordsOk u) :
    InstWords i (assembleInst i) ∧ WordsOk (assembleInst i) ∧ (assembleInst i).length = u.length ∧
    (assembleInst i).head? = u.head? ∧
    (assembleInst i).take (1 + i.rtype.toList.length + i.rid.toList.length) =
      u.take (1 + i.rtype.toList.length + i.rid.toList.length) := by
  obtain ⟨w0, ops, e, hc, hop, hops⟩ := hu
  have hw0 : w0 < 4294967296 := hw w0 (by rw [e]; simp)
  have henc := encOps_words i.operands (opsWords_ok _ _ hops)
  have hl : (i.operands.flatMap encodeOperand).length = ops.length := opsWords_len_eq i.operands _ _ henc hops
  have hlen : (assembleInst i).length = u.length := by
    rw [e]
    simp only [assembleInst, List.length_cons, List.length_append]
    omega
  have hlt : (assembleInst i).length < 65536 := by rw [hlen, ← hc]; omega
  have hopc : i.opcode < 65536 := by rw [← hop]; omega
  have hasm := assemble_words i hopc hlt (opsWords_ok _ _ hops)
  have hok : WordsOk (assembleInst i) := by
    obtain ⟨w0', body, ha, c', o', hb'⟩ := C02_first_word i hopc hlt
    have hw0' : w0' < 4294967296 := by omega
    have hopsok : WordsOk ops := fun x hx => hw x (by rw [e]; simp [hx])
    intro x hx
    rw [ha, hb'] at hx
    rcases List.mem_cons.1 hx with rfl | hx
    · exact hw0'
    · rcases List.mem_append.1 hx with hx | hx
      · exact hw x (by rw [e]; exact List.mem_cons_of_mem _ (List.mem_append_left _ hx))
      · exact encOps_ok i.operands ops hops hopsok x hx
  have hag := instWords_agree i (assembleInst i) u hasm ⟨w0, ops, e, hc, hop, hops⟩ hok hw
  exact ⟨hasm, hok, hlen, hag.2.1, hag.2.2⟩

/-- per chunk: the re-encoding has the chunk's length; hence the total length is preserved -/
theorem Chunks.length {is : List Inst} {ws : List Nat} (h : Chunks is ws) (hw : WordsOk ws) :
    (is.flatMap assembleInst).length = ws.length := by
  induction h with
  | nil => rfl
  | @cons i u is' ws' hi _ ih =>
    have h1 := (reencode i u hi (fun x hx => hw x (List.mem_append_left _ hx))).2.2.1
    have h2 := ih (fun x hx => hw x (List.mem_append_right _ hx))
    simp only [List.flatMap_cons, List.length_append, h1, h2]

/-- per chunk: every instruction re-encodes as in `reencode` -/
theorem Chunks.reencode {is : List Inst} {ws : List Nat} (h : Chunks is ws) (hw : WordsOk ws) :
    ∀ i ∈ is, ∃ u, u.Sublist ws ∧ InstWords i u ∧ InstWords i (assembleInst i) ∧ WordsOk (assembleInst i) ∧
      (assembleInst i).length = u.length ∧ (assembleInst i).head? = u.head? := by
  induction h with
  | nil => intro i hi; cases hi
  | @cons i0 u is' ws' hi _ ih =>
    intro i hmem
    rcases List.mem_cons.1 hmem with rfl | hmem
    · have r := Rspirv.Props.C01Full.reencode i u hi (fun x hx => hw x (List.mem_append_left _ hx))
      exact ⟨u, List.sublist_append_left _ _, hi, r.1, r.2.1, r.2.2.1, r.2.2.2.1⟩
    · obtain ⟨v, hs, r⟩ := ih (fun x hx => hw x (List.mem_append_right _ hx)) i hmem
      exact ⟨v, hs.trans (List.sublist_append_right _ _), r⟩

theorem flatMap_length_perm {α : Type} (f : α → List Nat) {a b : List α} (h : a.Perm b) :
    (a.flatMap f).length = (b.flatMap f).length := by
  induction h with
  | nil => rfl
  | cons x _ ih => simp only [List.flatMap_cons, List.length_append, ih]
  | swap x y l => simp only [List.flatMap_cons, List.length_append]; omega
  | trans _ _ ih1 ih2 => exact ih1.trans ih2

theorem map_inst_append : ∀ (a b : List Inst) (x : List Ev), (x = [] ∨ x = [Ev.fin]) →
    a.map Ev.inst ++ x = b.map Ev.inst ++ [Ev.fin] → a = b ∧ x = [Ev.fin]
  | [], [], x, _, h => ⟨rfl, by simpa using h⟩
  | [], b0 :: bs, x, hx, h => by
    rcases hx with rfl | rfl
    · cases h
    · simp only [List.map_nil, List.nil_append, List.map_cons, List.cons_append] at h
      cases (List.cons.inj h).1
  | a0 :: as, [], x, _, h => by
    simp only [List.map_nil, List.nil_append, List.map_cons, List.cons_append] at h
    cases (List.cons.inj h).1
  | a0 :: as, b0 :: bs, x, hx, h => by
    simp only [List.map_cons, List.cons_append] at h
    obtain ⟨h1, h2⟩ := List.cons.inj h
    obtain ⟨r1, r2⟩ := map_inst_append as bs x hx h2
    cases h1
    exact ⟨by rw [r1], r2⟩

/-- **C01 (end to end).** Every binary `load_bytes` accepts as `m` (bytes below 256, shorter than 2^63 bytes): it has five
header words with the magic number; the words behind them are the concatenation of one encoding per delivered instruction
`is`; `m` is what the loader makes of `is` under the header `[magic, 0x00MMmm00, rspirv, bound, 0]`; every instruction
re-encodes to an encoding of the same length, first word, result words (`Chunks.reencode`); and unless the input contains
two `OpMemoryModel` or a parameter behind a label (`TidyRun`), the assembled output is that header followed by the
encodings of a permutation of `is` which keeps the order inside every section and inside the function part. -/
theorem C01_full (G : Tables) (L : LTables) (hT : Rspirv.Props.C04.tablesSafe G = true) (good : GoodTables G)
    (bytes : List Nat) (hb : ∀ b ∈ bytes, b < 256) (hs : bytes.length < 2 ^ 63) (m : Module Inst)
    (h : loadBytes G L bytes = .ok m) :
    20 ≤ bytes.length ∧ le32 bytes 0 = G.magic ∧
    ∃ hd is, hd = ⟨G.magic, (le32 bytes 4 / 65536 % 256) * 65536 + (le32 bytes 4 / 256 % 256) * 256, 0x000f0000,
        le32 bytes 12, 0⟩ ∧
      Chunks is (Spec.streamWords bytes) ∧ load L hd is = .ok m ∧
      (∀ i ∈ is, InstWords i (assembleInst i) ∧ WordsOk (assembleInst i)) ∧
      (TidyRun L (LState.start hd) is →
        (Rspirv.Props.C15.allInstIter m).Perm is ∧
        (∀ k, k ≤ 10 → (m.sect k).Sublist is) ∧ (m.functions.flatMap fnChain).Sublist is ∧
        Rspirv.Props.C15.assemble assembleInst m =
          [hd.magic, hd.version, hd.generator, hd.bound, hd.reserved] ++
            (Rspirv.Props.C15.allInstIter m).flatMap assembleInst ∧
        (Rspirv.Props.C15.assemble assembleInst m).length = 5 + (Spec.streamWords bytes).length) := by
  obtain ⟨hd, is, htr, hl⟩ := C01_loadBytes G L bytes m h
  have h20 : 20 ≤ bytes.length := by
    by_cases h20 : 20 ≤ bytes.length
    · exact h20
    · obtain ⟨_, _, ht⟩ := Rspirv.Props.C03.C03_header_short G bytes (by omega)
      rw [ht] at htr; cases htr
  have hmagic : le32 bytes 0 = G.magic := by
    by_cases hm : le32 bytes 0 = G.magic
    · exact hm
    · obtain ⟨_, ht⟩ := Rspirv.Props.C03.C03_header_magic G bytes hb hs h20 hm
      rw [ht] at htr; cases htr
  obtain ⟨hacc, htr2⟩ := C03_accept_header G hT bytes hb hs h20 hmagic
  rw [htr2] at htr
  have hhd := (Ev.header.inj (List.cons.inj (List.cons.inj htr).2).1)
  have hrest := (List.cons.inj (List.cons.inj htr).2).2
  -- the trace ends with `fin`, so everything was recognised
  obtain ⟨his, hfin⟩ := map_inst_append _ is _ (by split <;> simp) hrest
  have hall : (Spec.insts G (bytes.length + 1) [] (Spec.streamWords bytes)).2 = [] := by
    by_cases hc : (Spec.insts G (bytes.length + 1) [] (Spec.streamWords bytes)).2 = []
    · exact hc
    · rw [if_neg hc] at hfin; cases hfin
  have hch : Chunks is (Spec.streamWords bytes) := his ▸ insts_chunks G good _ [] _ hall
  have hwok := streamWords_ok bytes hb
  refine ⟨h20, hmagic, hd, is, hhd.symm, hch, hl, ?_, ?_⟩
  · intro i hi
    obtain ⟨u, _, _, r1, r2, _⟩ := hch.reencode hwok i hi
    exact ⟨r1, r2⟩
  · intro ht
    have hperm := C01_perm L hd is m hl ht
    obtain ⟨hsub1, hsub2⟩ := C01_sublist L hd is m hl ht
    have hwords : Rspirv.Props.C15.assemble assembleInst m =
        [hd.magic, hd.version, hd.generator, hd.bound, hd.reserved] ++
          (Rspirv.Props.C15.allInstIter m).flatMap assembleInst := by
      rw [C01_words L hd is m hl ht assembleInst, C01_traversal L hd is m hl ht]
    refine ⟨hperm, hsub1, hsub2, hwords, ?_⟩
    rw [hwords, List.length_append, flatMap_length_perm assembleInst hperm, hch.length hwok]
    rfl

/-- **C01 (reload, no side conditions on the output).** For an accepted binary inside the property's exclusions, the only
hypothesis left for "loading the assembled output again gives the same module" is that the regrouped instruction sequence
is still a stream of instructions of the grammar (necessary: recorded finding `C01:reload-literal-width-late-type`); that the
output consists of 32-bit words and is shorter than 2^63 bytes is now derived. -/
theorem C01_reload_full (G : Tables) (L : LTables) (hT : Rspirv.Props.C04.tablesSafe G = true) (good : GoodTables G)
    (bytes : List Nat) (hb : ∀ b ∈ bytes, b < 256) (hs : bytes.length < 2 ^ 63) (m : Module Inst)
    (h : loadBytes G L bytes = .ok m)
    (ht : ∀ hd is, load L hd is = .ok m → Chunks is (Spec.streamWords bytes) → TidyRun L (LState.start hd) is)
    (hg : GrammarStream G [] (Rspirv.Props.C15.allInstIter m)) :
    loadBytes G L ((Rspirv.Props.C15.assemble assembleInst m).flatMap Spec.wordBytes) = .ok m := by
  obtain ⟨h20, hmagic, hd, is, hhd, hch, hl, hre, hrest⟩ := C01_full G L hT good bytes hb hs m h
  obtain ⟨hperm, _, _, hwords, hlen⟩ := hrest (ht hd is hl hch)
  have hle : ∀ o, le32 bytes o < 4294967296 := fun o => Rspirv.Props.ParserSpec.le32_lt bytes hb o
  refine C01_reload_bytes G L hT good bytes m h hg ?_ ?_
  · intro w hw
    rw [hwords] at hw
    rcases List.mem_append.1 hw with hw | hw
    · subst hhd
      simp only [List.mem_cons, List.not_mem_nil, or_false] at hw
      have := hle 0; have := hle 4; have := hle 12
      rcases hw with rfl | rfl | rfl | rfl | rfl <;> omega
    · obtain ⟨i, hi, hwi⟩ := List.mem_flatMap.1 hw
      exact (hre i (hperm.mem_iff.1 hi)).2 w hwi
  · rw [hlen]
    have : (Spec.streamWords bytes).length = (bytes.length - 20) / 4 := by
      simp [Spec.streamWords]
    omega

end Rspirv.Props.C01Full
