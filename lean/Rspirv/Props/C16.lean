import Rspirv.Generated.Grammar
import Rspirv.Generated.Extracted
import Rspirv.Generated.Findings
import Rspirv.Reference.SpecClass
/-!
# C16 — opcode classification predicates agree with the SPIR-V specification

`reflectTable` is the complete graph of the 12 predicates of `grammar/reflect.rs` on every opcode of the
core table, dumped by executing the real functions (extraction, DESIGN §4.2). `SpecClass` is the
authored reference. `c16KnownGaps` lists the (predicate, opcode) pairs recorded in
`known_findings.json` that are still present in the tree; it is empty when there are none, and then the
theorems below are the full statement.
-/
namespace Rspirv.Props.C16
open Rspirv Rspirv.Generated.Extracted Rspirv.Generated.Grammar Rspirv.Reference

/-- opcodes on which predicate number `i` answers true -/
def sel (i : Nat) : List Nat := reflectTable.filterMap (fun r => if r.2.testBit i then some r.1 else none)

/-- reference class minus recorded gaps of predicate `i` -/
def expected (i : Nat) (cls : List Nat) : List Nat :=
  cls.filter (fun o => !(Rspirv.Generated.Findings.c16KnownGaps.contains (i, o)))

def sortedUnion (a b : List Nat) : List Nat := sortNat (a ++ b)

def coversOk : Bool := reflectTable.map (·.1) == coreTable.map (·.opcode)

/-- predicate `i` answers true exactly on `cls` (minus recorded gaps) -/
def classOk (i : Nat) (cls : List Nat) : Bool := sel i == sortNat (expected i cls)

def rowOk (r : Nat × Nat) : Bool :=
  (r.2.testBit 2 == (r.2.testBit 0 || r.2.testBit 1)) &&
  (r.2.testBit 9 == (r.2.testBit 7 || r.2.testBit 8)) &&
  (r.2.testBit 11 == (r.2.testBit 10 || r.2.testBit 9)) &&
  decide (((r.2.testBit 0).toNat + (r.2.testBit 1).toNat + (r.2.testBit 3).toNat + (r.2.testBit 4).toNat +
           (r.2.testBit 5).toNat + (r.2.testBit 6).toNat + (r.2.testBit 7).toNat + (r.2.testBit 8).toNat +
           (r.2.testBit 10).toNat) ≤ 1)

theorem covers_ok : coversOk = true := by decide +kernel
theorem locationDebug_ok : classOk 0 SpecClass.locationDebug = true := by decide +kernel
theorem nonLocationDebug_ok : classOk 1 SpecClass.nonLocationDebug = true := by decide +kernel
theorem annotation_ok : classOk 3 SpecClass.annotation = true := by decide +kernel
theorem type_ok : classOk 4 SpecClass.typeDecl = true := by decide +kernel
theorem constant_ok : classOk 5 SpecClass.constant = true := by decide +kernel
theorem variable_ok : classOk 6 SpecClass.variableDef = true := by decide +kernel
theorem return_ok : classOk 7 SpecClass.ret = true := by decide +kernel
theorem abort_ok : classOk 8 SpecClass.abort = true := by decide +kernel
theorem branch_ok : classOk 10 SpecClass.branch = true := by decide +kernel
theorem rows_ok : reflectTable.all rowOk = true := by decide +kernel

theorem mem_sel (i o : Nat) : o ∈ sel i ↔ ∃ r ∈ reflectTable, r.1 = o ∧ r.2.testBit i = true := by
  simp only [sel, List.mem_filterMap]
  constructor
  · rintro ⟨r, hr, h⟩
    split at h
    · cases h; exact ⟨r, hr, rfl, ‹_›⟩
    · cases h
  · rintro ⟨r, hr, rfl, h⟩
    exact ⟨r, hr, by simp [h]⟩

theorem class_iff (i : Nat) (cls : List Nat) (h : classOk i cls = true) (o : Nat) :
    (∃ r ∈ reflectTable, r.1 = o ∧ r.2.testBit i = true) ↔ o ∈ expected i cls := by
  rw [← mem_sel]
  have : sel i = sortNat (expected i cls) := by simpa [classOk] using h
  rw [this]; exact (sortNat_perm _).mem_iff

/-- **C16 (base predicates).** For every core opcode `o`, each base predicate answers true on `o` exactly when
`o` is in its specification class (minus the recorded gaps — none when `c16KnownGaps = []`). -/
theorem C16_base (o : Nat) :
    ((∃ r ∈ reflectTable, r.1 = o ∧ r.2.testBit 0 = true) ↔ o ∈ expected 0 SpecClass.locationDebug) ∧
    ((∃ r ∈ reflectTable, r.1 = o ∧ r.2.testBit 1 = true) ↔ o ∈ expected 1 SpecClass.nonLocationDebug) ∧
    ((∃ r ∈ reflectTable, r.1 = o ∧ r.2.testBit 3 = true) ↔ o ∈ expected 3 SpecClass.annotation) ∧
    ((∃ r ∈ reflectTable, r.1 = o ∧ r.2.testBit 4 = true) ↔ o ∈ expected 4 SpecClass.typeDecl) ∧
    ((∃ r ∈ reflectTable, r.1 = o ∧ r.2.testBit 5 = true) ↔ o ∈ expected 5 SpecClass.constant) ∧
    ((∃ r ∈ reflectTable, r.1 = o ∧ r.2.testBit 6 = true) ↔ o ∈ expected 6 SpecClass.variableDef) ∧
    ((∃ r ∈ reflectTable, r.1 = o ∧ r.2.testBit 7 = true) ↔ o ∈ expected 7 SpecClass.ret) ∧
    ((∃ r ∈ reflectTable, r.1 = o ∧ r.2.testBit 8 = true) ↔ o ∈ expected 8 SpecClass.abort) ∧
    ((∃ r ∈ reflectTable, r.1 = o ∧ r.2.testBit 10 = true) ↔ o ∈ expected 10 SpecClass.branch) :=
  ⟨class_iff _ _ locationDebug_ok o, class_iff _ _ nonLocationDebug_ok o, class_iff _ _ annotation_ok o,
   class_iff _ _ type_ok o, class_iff _ _ constant_ok o, class_iff _ _ variable_ok o, class_iff _ _ return_ok o,
   class_iff _ _ abort_ok o, class_iff _ _ branch_ok o⟩

/-- **C16 (derived predicates, disjointness).** On every core opcode: debug = location ∨ non-location,
return-or-abort = return ∨ abort, terminator = branch ∨ return-or-abort, and at most one base class holds. -/
theorem C16_derived (r : Nat × Nat) (hr : r ∈ reflectTable) :
    (r.2.testBit 2 = (r.2.testBit 0 || r.2.testBit 1)) ∧
    (r.2.testBit 9 = (r.2.testBit 7 || r.2.testBit 8)) ∧
    (r.2.testBit 11 = (r.2.testBit 10 || r.2.testBit 9)) ∧
    ((r.2.testBit 0).toNat + (r.2.testBit 1).toNat + (r.2.testBit 3).toNat + (r.2.testBit 4).toNat +
     (r.2.testBit 5).toNat + (r.2.testBit 6).toNat + (r.2.testBit 7).toNat + (r.2.testBit 8).toNat +
     (r.2.testBit 10).toNat ≤ 1) := by
  have h := List.all_eq_true.1 rows_ok r hr
  simp only [rowOk, Bool.and_eq_true, beq_iff_eq, decide_eq_true_eq] at h
  exact ⟨h.1.1.1, h.1.1.2, h.1.2, h.2⟩

/-- the extraction covers every opcode of the grammar table -/
theorem C16_covers : reflectTable.map (·.1) = coreTable.map (·.opcode) := by
  simpa [coversOk] using covers_ok

example : reflectTable.length = 787 ∧ 19 ∈ sel 4 ∧ 253 ∈ sel 11 := by decide +kernel

end Rspirv.Props.C16
