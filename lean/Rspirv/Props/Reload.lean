import Rspirv.Props.C01
/-!
# Canonical modules are fixed points of traverse-then-load

`Canon L m`: every section of `m` holds only instructions the loader files into that section when it meets them at
module level; every function has its `OpFunction`, its `OpFunctionEnd`, parameters that are `OpFunctionParameter`s, and
blocks that start with an `OpLabel` and end with their only termination instruction, everything in between being an
instruction the loader appends to an open block.

* `load_canon`: feeding the loader with the all-instructions traversal of a canonical module reconstructs the module
  field for field (`load L h (allInstIter m) = .ok { m with header := some h }`).
* `canon_of_load`: every module the loader returns is canonical.
* `C01_reload`: hence loading the traversal of a loaded module gives the same module again.
-/
namespace Rspirv.Props.Reload
open Rspirv Rspirv.Model Rspirv.Props.C05 Rspirv.Props.C01

/-- the section the loader files an instruction of opcode `op` into when no function is open -/
def topDest (L : LTables) (op : Nat) : Option Nat :=
  match classify L op with
  | .sect k => some k
  | .line => some 10
  | .varOp => some 10
  | .undefOp => some 10
  | _ => none

/-- opcodes the loader appends to the open block -/
def inBlock (L : LTables) (op : Nat) : Bool :=
  match classify L op with
  | .other => true
  | .line => true
  | .varOp => true
  | .undefOp => true
  | _ => false

def BlockCanon (L : LTables) (b : Block Inst) : Prop :=
  ∃ l body t, b = ⟨some l, body ++ [t]⟩ ∧ classify L l.opcode = .label ∧ classify L t.opcode = .term ∧
    ∀ x ∈ body, inBlock L x.opcode = true

def FnCanon (L : LTables) (f : Function Inst) : Prop :=
  ∃ d e, f.def_ = some d ∧ f.end_ = some e ∧ classify L d.opcode = .fn ∧ classify L e.opcode = .fnEnd ∧
    (∀ p ∈ f.params, classify L p.opcode = .param) ∧ ∀ b ∈ f.blocks, BlockCanon L b

structure Canon (L : LTables) (m : Module Inst) : Prop where
  sects : ∀ k, k ≤ 10 → k ≠ 3 → ∀ i ∈ m.sect k, topDest L i.opcode = some k
  mm : ∀ i, m.memoryModel = some i → classify L i.opcode = .sect 3
  fns : ∀ f ∈ m.functions, FnCanon L f

/-! ### running the loader over pieces of the traversal -/

theorem run_append (L : LTables) : ∀ (a b : List Inst) (s : LState),
    LState.run L s (a ++ b) = (match LState.run L s a with | .ok s' => LState.run L s' b | .error e => .error e)
  | [], b, s => by simp [LState.run]
  | i :: a, b, s => by
    simp only [List.cons_append, LState.run]
    cases s.step L i with
    | error e => rfl
    | ok s1 => exact run_append L a b s1

theorem step_top (L : LTables) (m : Module Inst) (i : Inst) (k : Nat) (h : topDest L i.opcode = some k) :
    (⟨m, none, none⟩ : LState).step L i = .ok ⟨m.push k i, none, none⟩ := by
  unfold topDest at h
  unfold LState.step
  cases hc : classify L i.opcode <;> rw [hc] at h <;> simp at h <;> subst h <;> simp

theorem run_top (L : LTables) (k : Nat) : ∀ (l : List Inst) (m : Module Inst), (∀ i ∈ l, topDest L i.opcode = some k) →
    LState.run L ⟨m, none, none⟩ l = .ok ⟨l.foldl (fun m i => m.push k i) m, none, none⟩
  | [], m, _ => rfl
  | i :: l, m, h => by
    simp only [LState.run, step_top L m i k (h i List.mem_cons_self), List.foldl_cons]
    exact run_top L k l _ (fun x hx => h x (List.mem_cons_of_mem _ hx))

theorem step_body (L : LTables) (m : Module Inst) (f : Function Inst) (b : Block Inst) (i : Inst)
    (h : inBlock L i.opcode = true) :
    (⟨m, some f, some b⟩ : LState).step L i = .ok ⟨m, some f, some { b with insts := b.insts ++ [i] }⟩ := by
  unfold inBlock at h
  unfold LState.step
  cases hc : classify L i.opcode <;> rw [hc] at h <;> simp at h <;> simp [pushBlock]

theorem run_body (L : LTables) (m : Module Inst) (f : Function Inst) : ∀ (l : List Inst) (b : Block Inst),
    (∀ i ∈ l, inBlock L i.opcode = true) →
    LState.run L ⟨m, some f, some b⟩ l = .ok ⟨m, some f, some { b with insts := b.insts ++ l }⟩
  | [], b, _ => by simp [LState.run]
  | i :: l, b, h => by
    simp only [LState.run, step_body L m f b i (h i List.mem_cons_self)]
    rw [run_body L m f l _ (fun x hx => h x (List.mem_cons_of_mem _ hx))]
    simp

theorem run_block (L : LTables) (m : Module Inst) (f : Function Inst) (b : Block Inst) (hb : BlockCanon L b) :
    LState.run L ⟨m, some f, none⟩ (blockChain b) = .ok ⟨m, some { f with blocks := f.blocks ++ [b] }, none⟩ := by
  obtain ⟨l, body, t, rfl, hl, ht, hbody⟩ := hb
  have h1 : (⟨m, some f, none⟩ : LState).step L l = .ok ⟨m, some f, some ⟨some l, []⟩⟩ := by
    unfold LState.step; rw [hl]; simp
  have h3 : ∀ bb : Block Inst, (⟨m, some f, some bb⟩ : LState).step L t =
      .ok ⟨m, some { f with blocks := f.blocks ++ [{ bb with insts := bb.insts ++ [t] }] }, none⟩ := by
    intro bb; unfold LState.step; rw [ht]
  simp only [blockChain, Option.toList, List.singleton_append, LState.run, h1]
  rw [run_append L body, run_body L m f body _ hbody]
  simp only [LState.run, h3, List.nil_append]

theorem run_blocks (L : LTables) (m : Module Inst) : ∀ (bs : List (Block Inst)) (f : Function Inst),
    (∀ b ∈ bs, BlockCanon L b) →
    LState.run L ⟨m, some f, none⟩ (bs.flatMap blockChain) = .ok ⟨m, some { f with blocks := f.blocks ++ bs }, none⟩
  | [], f, _ => by simp [LState.run]
  | b :: bs, f, h => by
    simp only [List.flatMap_cons]
    rw [run_append L (blockChain b), run_block L m f b (h b List.mem_cons_self)]
    simp only
    rw [run_blocks L m bs _ (fun x hx => h x (List.mem_cons_of_mem _ hx))]
    simp

theorem run_params (L : LTables) (m : Module Inst) : ∀ (ps : List Inst) (f : Function Inst),
    (∀ p ∈ ps, classify L p.opcode = .param) →
    LState.run L ⟨m, some f, none⟩ ps = .ok ⟨m, some { f with params := f.params ++ ps }, none⟩
  | [], f, _ => by simp [LState.run]
  | p :: ps, f, h => by
    have h1 : (⟨m, some f, none⟩ : LState).step L p = .ok ⟨m, some { f with params := f.params ++ [p] }, none⟩ := by
      unfold LState.step; rw [h p List.mem_cons_self]
    simp only [LState.run, h1]
    rw [run_params L m ps _ (fun x hx => h x (List.mem_cons_of_mem _ hx))]
    simp

theorem run_fn (L : LTables) (m : Module Inst) (f : Function Inst) (hf : FnCanon L f) :
    LState.run L ⟨m, none, none⟩ (fnChain f) = .ok ⟨{ m with functions := m.functions ++ [f] }, none, none⟩ := by
  obtain ⟨d, e, hd, he, hcd, hce, hps, hbs⟩ := hf
  obtain ⟨fd, fe, fp, fb⟩ := f
  simp only at hd he hps hbs
  subst hd he
  have h1 : (⟨m, none, none⟩ : LState).step L d = .ok ⟨m, some ⟨some d, none, [], []⟩, none⟩ := by
    unfold LState.step; rw [hcd]; simp
  have h4 : ∀ ff : Function Inst, (⟨m, some ff, none⟩ : LState).step L e =
      .ok ⟨{ m with functions := m.functions ++ [{ ff with end_ := some e }] }, none, none⟩ := by
    intro ff; unfold LState.step; rw [hce]; simp
  simp only [fnChain, Option.toList, List.singleton_append, List.append_assoc, List.cons_append, List.nil_append, LState.run, h1]
  rw [run_append L fp, run_params L m fp _ hps]
  simp only
  rw [run_append L (fb.flatMap blockChain), run_blocks L m fb _ hbs]
  simp only [LState.run, h4, List.nil_append]

theorem run_fns (L : LTables) : ∀ (fs : List (Function Inst)) (m : Module Inst), (∀ f ∈ fs, FnCanon L f) →
    LState.run L ⟨m, none, none⟩ (fs.flatMap fnChain) = .ok ⟨{ m with functions := m.functions ++ fs }, none, none⟩
  | [], m, _ => by simp [LState.run]
  | f :: fs, m, h => by
    simp only [List.flatMap_cons]
    rw [run_append L (fnChain f), run_fn L m f (h f List.mem_cons_self)]
    simp only
    rw [run_fns L fs _ (fun x hx => h x (List.mem_cons_of_mem _ hx))]
    simp

/-! ### pushing a whole section -/

theorem foldl_push (k : Nat) (hk : k ≤ 10) (hk3 : k ≠ 3) : ∀ (l : List Inst) (m : Module Inst),
    (∀ j, j ≤ 10 → (l.foldl (fun m i => m.push k i) m).sect j = if j = k then m.sect j ++ l else m.sect j) ∧
    (l.foldl (fun m i => m.push k i) m).functions = m.functions ∧
    (l.foldl (fun m i => m.push k i) m).header = m.header
  | [], m => by
    refine ⟨?_, rfl, rfl⟩
    intro j _; by_cases h : j = k <;> simp [h]
  | i :: l, m => by
    obtain ⟨h1, h2, h3⟩ := foldl_push k hk hk3 l (m.push k i)
    simp only [List.foldl_cons]
    refine ⟨?_, ?_, ?_⟩
    · intro j hj
      rw [h1 j hj, C01.sect_push m k j i hk hj (fun e => absurd e hk3)]
      by_cases h : j = k
      · subst h; simp [hk3]
      · have : ¬ k = j := fun e => h e.symm
        simp [h, this]
    · rw [h2, C05.push_functions]
    · rw [h3]; unfold Module.push; split <;> rfl

theorem foldl_push_gen (k : Nat) (hk : k ≤ 10) (l : List Inst) (m : Module Inst)
    (h3 : k = 3 → l.length ≤ 1 ∧ m.memoryModel = none) :
    (∀ j, j ≤ 10 → (l.foldl (fun m i => m.push k i) m).sect j = if j = k then m.sect j ++ l else m.sect j) ∧
    (l.foldl (fun m i => m.push k i) m).functions = m.functions ∧
    (l.foldl (fun m i => m.push k i) m).header = m.header := by
  by_cases hk3 : k = 3
  · obtain ⟨hl, hm⟩ := h3 hk3
    match l, hl with
    | [], _ =>
      refine ⟨?_, rfl, rfl⟩
      intro j _; by_cases h : j = k <;> simp [h]
    | [i], _ =>
      simp only [List.foldl_cons, List.foldl_nil]
      refine ⟨?_, C05.push_functions m k i, by unfold Module.push; split <;> rfl⟩
      intro j hj
      rw [C01.sect_push m k j i hk hj (fun _ => hm)]
      by_cases h : j = k
      · subst h; simp
      · have : ¬ k = j := fun e => h e.symm
        simp [h, this]
  · exact foldl_push k hk hk3 l m

theorem toList_eq_nil {α} (o : Option α) : o.toList = [] ↔ o = none := by cases o <;> simp

/-- the loader over the chosen sections of a canonical module, starting from any module-level state -/
theorem run_sects (L : LTables) (m : Module Inst) (hc : Canon L m) : ∀ (ks : List Nat) (m0 : Module Inst),
    ks.Nodup → (∀ k ∈ ks, k ≤ 10) → (3 ∈ ks → m0.memoryModel = none) →
    ∃ m1, LState.run L ⟨m0, none, none⟩ (ks.flatMap m.sect) = .ok ⟨m1, none, none⟩ ∧
      (∀ j, j ≤ 10 → m1.sect j = m0.sect j ++ (if j ∈ ks then m.sect j else [])) ∧
      m1.functions = m0.functions ∧ m1.header = m0.header
  | [], m0, _, _, _ => ⟨m0, rfl, by intro j _; simp, rfl, rfl⟩
  | k :: ks, m0, hnd, hle, h3 => by
    have hk : k ≤ 10 := hle k List.mem_cons_self
    have htop : ∀ i ∈ m.sect k, topDest L i.opcode = some k := by
      by_cases hk3 : k = 3
      · subst hk3
        intro i hi
        have : m.memoryModel = some i := by
          simp only [Module.sect] at hi
          cases hmm : m.memoryModel with
          | none => rw [hmm] at hi; cases hi
          | some x => rw [hmm] at hi; simp only [Option.toList, List.mem_singleton] at hi; rw [hi]
        unfold topDest; rw [hc.mm i this]
      · exact hc.sects k hk hk3
    have hlen : k = 3 → (m.sect k).length ≤ 1 ∧ m0.memoryModel = none := by
      intro e; subst e
      refine ⟨?_, h3 List.mem_cons_self⟩
      simp only [Module.sect]; cases m.memoryModel <;> simp
    obtain ⟨f1, f2, f3⟩ := foldl_push_gen k hk (m.sect k) m0 hlen
    have hnd' := List.nodup_cons.1 hnd
    have h3' : 3 ∈ ks → ((m.sect k).foldl (fun m i => m.push k i) m0).memoryModel = none := by
      intro h3ks
      have hne : ¬ 3 = k := fun e => hnd'.1 (e ▸ h3ks)
      have h0 := h3 (List.mem_cons_of_mem _ h3ks)
      have := f1 3 (by omega)
      simp only [hne, if_false, Module.sect, h0, Option.toList] at this
      exact (toList_eq_nil _).1 this
    obtain ⟨m1, r1, r2, r3, r4⟩ := run_sects L m hc ks _ hnd'.2 (fun x hx => hle x (List.mem_cons_of_mem _ hx)) h3'
    refine ⟨m1, ?_, ?_, by rw [r3, f2], by rw [r4, f3]⟩
    · simp only [List.flatMap_cons]
      rw [run_append L (m.sect k), run_top L k (m.sect k) m0 htop]
      exact r1
    · intro j hj
      rw [r2 j hj, f1 j hj]
      by_cases hjk : j = k
      · subst hjk
        have : j ∉ ks := hnd'.1
        simp [this]
      · by_cases hjs : j ∈ ks <;> simp [hjk, hjs]

theorem module_ext (a b : Module Inst) (hs : ∀ j, j ≤ 10 → a.sect j = b.sect j) (hh : a.header = b.header)
    (hf : a.functions = b.functions) : a = b := by
  obtain ⟨a0, a1, a2, a3, a4, a5, a6, a7, a8, a9, a10, a11, a12⟩ := a
  obtain ⟨b0, b1, b2, b3, b4, b5, b6, b7, b8, b9, b10, b11, b12⟩ := b
  have h0 := hs 0 (by omega); have h1 := hs 1 (by omega); have h2 := hs 2 (by omega); have h3 := hs 3 (by omega)
  have h4 := hs 4 (by omega); have h5 := hs 5 (by omega); have h6 := hs 6 (by omega); have h7 := hs 7 (by omega)
  have h8 := hs 8 (by omega); have h9 := hs 9 (by omega); have h10 := hs 10 (by omega)
  simp only [Module.sect] at h0 h1 h2 h3 h4 h5 h6 h7 h8 h9 h10
  simp only at hh hf
  have h3' : a4 = b4 := by
    cases a4 <;> cases b4 <;> simp_all
  subst h0 h1 h2 h3' h4 h5 h6 h7 h8 h9 h10 hh hf
  rfl

/-- **Canonical modules reload.** The loader, fed with the header `h` and the all-instructions traversal of a canonical
module, returns that module (with `h` as its header): every instruction is filed where it was. -/
theorem load_canon (L : LTables) (h : Header) (m : Module Inst) (hc : Canon L m) :
    load L h (Rspirv.Props.C15.allInstIter m) = .ok { m with header := some h } := by
  have hex : Rspirv.Props.C15.allInstIter m =
      [0, 1, 2, 3, 4, 5, 6, 7, 8, 9, 10].flatMap m.sect ++ m.functions.flatMap fnChain := by
    rw [Rspirv.Props.C15.C15_explicit]
    simp only [List.flatMap_cons, List.flatMap_nil, Module.sect, List.append_nil, List.append_assoc]
    congr 11
    apply flatMap_congr'
    intro f _
    simp only [fnChain, List.append_assoc]
    congr 2
  obtain ⟨m1, r1, r2, r3, r4⟩ := run_sects L m hc [0, 1, 2, 3, 4, 5, 6, 7, 8, 9, 10] (LState.start h).module
    (by decide) (by intro k hk; simp at hk; omega) (fun _ => rfl)
  unfold load
  rw [hex, run_append L _ _ (LState.start h)]
  have hs : LState.start h = ⟨(LState.start h).module, none, none⟩ := rfl
  rw [hs, r1]
  simp only
  rw [run_fns L m.functions m1 hc.fns]
  simp only [LState.finalize, Option.isSome_none, Bool.false_eq_true, if_false]
  congr 1
  apply module_ext
  · intro j hj
    have hj' : j ∈ [0, 1, 2, 3, 4, 5, 6, 7, 8, 9, 10] := by simp; omega
    have := r2 j hj
    simp only [hj', if_true] at this
    have hj'' : j = 0 ∨ j = 1 ∨ j = 2 ∨ j = 3 ∨ j = 4 ∨ j = 5 ∨ j = 6 ∨ j = 7 ∨ j = 8 ∨ j = 9 ∨ j = 10 := by omega
    rcases hj'' with rfl | rfl | rfl | rfl | rfl | rfl | rfl | rfl | rfl | rfl | rfl <;>
      simpa [Module.sect, LState.start] using this
  · simp only [r4]; rfl
  · simp only [r3]; simp [LState.start]

/-! ### every loaded module is canonical -/

def sectLe : Cls → Prop
  | .sect k => k ≤ 10
  | _ => True

theorem sectLe_ite (c : Prop) [Decidable c] (a b : Cls) (ha : sectLe a) (hb : sectLe b) :
    sectLe (if c then a else b) := by
  split <;> assumption

theorem classify_sectLe (L : LTables) (op : Nat) : sectLe (classify L op) := by
  unfold classify
  repeat' apply sectLe_ite
  all_goals simp [sectLe]

theorem classify_sect_le (L : LTables) (op k : Nat) (h : classify L op = .sect k) : k ≤ 10 := by
  have := classify_sectLe L op
  rw [h] at this
  exact this

theorem sect_push_ne3 (m : Module Inst) (k j : Nat) (i : Inst) (hk : k ≤ 10) (hj : j ≤ 10) (hj3 : j ≠ 3) :
    (m.push k i).sect j = m.sect j ++ (if k = j then [i] else []) := by
  have hk' : k = 0 ∨ k = 1 ∨ k = 2 ∨ k = 3 ∨ k = 4 ∨ k = 5 ∨ k = 6 ∨ k = 7 ∨ k = 8 ∨ k = 9 ∨ k = 10 := by omega
  have hj' : j = 0 ∨ j = 1 ∨ j = 2 ∨ j = 4 ∨ j = 5 ∨ j = 6 ∨ j = 7 ∨ j = 8 ∨ j = 9 ∨ j = 10 := by omega
  rcases hk' with rfl | rfl | rfl | rfl | rfl | rfl | rfl | rfl | rfl | rfl | rfl <;>
    rcases hj' with rfl | rfl | rfl | rfl | rfl | rfl | rfl | rfl | rfl | rfl <;>
    simp [Module.push, Module.sect]

theorem push_mm (m : Module Inst) (k : Nat) (i : Inst) :
    (m.push k i).memoryModel = if k = 3 then some i else m.memoryModel := by
  unfold Module.push; split <;> simp_all

structure CInv (L : LTables) (s : LState) : Prop where
  sects : ∀ k, k ≤ 10 → k ≠ 3 → ∀ i ∈ s.module.sect k, topDest L i.opcode = some k
  mm : ∀ i, s.module.memoryModel = some i → classify L i.opcode = .sect 3
  fns : ∀ f ∈ s.module.functions, FnCanon L f
  cur : ∀ f, s.function = some f → ∃ d, f.def_ = some d ∧ classify L d.opcode = .fn ∧
    (∀ p ∈ f.params, classify L p.opcode = .param) ∧ ∀ b ∈ f.blocks, BlockCanon L b
  blk : ∀ b, s.block = some b → ∃ l, b.label = some l ∧ classify L l.opcode = .label ∧
    ∀ x ∈ b.insts, inBlock L x.opcode = true

theorem cinv_push (L : LTables) (m : Module Inst) (f : Option (Function Inst)) (b : Option (Block Inst)) (i : Inst) (k : Nat)
    (hs : CInv L ⟨m, f, b⟩) (ht : topDest L i.opcode = some k) (hk : k ≤ 10)
    (h3 : k = 3 → classify L i.opcode = .sect 3) : CInv L ⟨m.push k i, f, b⟩ := by
  obtain ⟨h1, h2, h4, h5, h6⟩ := hs
  refine ⟨?_, ?_, by simpa [C05.push_functions] using h4, h5, h6⟩
  · intro j hj hj3 x hx
    simp only at hx
    rw [sect_push_ne3 m k j i hk hj hj3] at hx
    rcases List.mem_append.1 hx with hx | hx
    · exact h1 j hj hj3 x hx
    · by_cases hkj : k = j
      · subst hkj; simp only [if_true, List.mem_singleton] at hx; subst hx; exact ht
      · simp [hkj] at hx
  · intro x hx
    simp only [push_mm] at hx
    by_cases hk3 : k = 3
    · simp only [hk3, if_true, Option.some.injEq] at hx; subst hx; exact h3 hk3
    · simp only [hk3, if_false] at hx; exact h2 x hx

theorem cinv_pushBlock (L : LTables) (m : Module Inst) (f : Option (Function Inst)) (bb : Block Inst) (i : Inst)
    (hs : CInv L ⟨m, f, some bb⟩) (hi : inBlock L i.opcode = true) :
    CInv L ⟨m, f, some { bb with insts := bb.insts ++ [i] }⟩ := by
  obtain ⟨h1, h2, h4, h5, h6⟩ := hs
  refine ⟨h1, h2, h4, h5, ?_⟩
  intro b' hb'
  simp only [Option.some.injEq] at hb'; subst hb'
  obtain ⟨l, hl, hcl, hn⟩ := h6 bb rfl
  refine ⟨l, hl, hcl, ?_⟩
  intro x hx
  rcases List.mem_append.1 hx with hx | hx
  · exact hn x hx
  · simp only [List.mem_singleton] at hx; subst hx; exact hi

theorem step_cinv (L : LTables) (s s' : LState) (i : Inst) (hs : CInv L s) (h : s.step L i = .ok s') : CInv L s' := by
  obtain ⟨m, f, b⟩ := s
  unfold LState.step at h
  cases hc : classify L i.opcode with
  | sect k =>
    simp only [hc] at h; cases h
    exact cinv_push L m f b i k hs (by unfold topDest; rw [hc]) (classify_sect_le L _ _ hc) (fun e => e ▸ hc)
  | line =>
    simp only [hc] at h
    cases b with
    | none => simp only at h; cases h; exact cinv_push L m f none i 10 hs (by unfold topDest; rw [hc]) (by omega) (by omega)
    | some bb => simp only [pushBlock] at h; cases h; exact cinv_pushBlock L m f bb i hs (by unfold inBlock; rw [hc])
  | varOp =>
    simp only [hc] at h
    cases f with
    | none =>
      simp only [Option.isNone_none, if_true] at h; cases h
      exact cinv_push L m none b i 10 hs (by unfold topDest; rw [hc]) (by omega) (by omega)
    | some ff =>
      simp only [Option.isNone_some, Bool.false_eq_true, if_false] at h
      cases b with
      | none => simp only at h; cases h
      | some bb => simp only [pushBlock] at h; cases h; exact cinv_pushBlock L m _ bb i hs (by unfold inBlock; rw [hc])
  | undefOp =>
    simp only [hc] at h
    cases f with
    | none =>
      simp only [Option.isNone_none, if_true] at h; cases h
      exact cinv_push L m none b i 10 hs (by unfold topDest; rw [hc]) (by omega) (by omega)
    | some ff =>
      simp only [Option.isNone_some, Bool.false_eq_true, if_false] at h
      cases b with
      | none => simp only at h; cases h
      | some bb => simp only [pushBlock] at h; cases h; exact cinv_pushBlock L m _ bb i hs (by unfold inBlock; rw [hc])
  | fn =>
    simp only [hc] at h
    obtain ⟨h1, h2, h4, h5, h6⟩ := hs
    cases f with
    | some ff => simp at h
    | none =>
      simp only [Option.isSome_none, Bool.false_eq_true, if_false] at h; cases h
      refine ⟨h1, h2, h4, ?_, h6⟩
      intro f' hf'; simp only [Option.some.injEq] at hf'; subst hf'
      exact ⟨i, rfl, hc, (by intro p hp; cases hp), (by intro b hb; cases hb)⟩
  | fnEnd =>
    simp only [hc] at h
    obtain ⟨h1, h2, h4, h5, h6⟩ := hs
    cases f with
    | none => simp at h
    | some ff =>
      simp only at h
      cases b with
      | some bb => simp at h
      | none =>
        simp only [Option.isSome_none, Bool.false_eq_true, if_false] at h; cases h
        refine ⟨h1, h2, ?_, (by intro f' hf'; cases hf'), h6⟩
        intro f' hf'
        simp only [List.mem_append, List.mem_singleton] at hf'
        rcases hf' with hf' | rfl
        · exact h4 f' hf'
        · obtain ⟨d, hd, hcd, hp, hb⟩ := h5 ff rfl
          exact ⟨d, i, hd, rfl, hcd, hc, hp, hb⟩
  | param =>
    simp only [hc] at h
    obtain ⟨h1, h2, h4, h5, h6⟩ := hs
    cases f with
    | none => simp at h
    | some ff =>
      simp only at h; cases h
      refine ⟨h1, h2, h4, ?_, h6⟩
      intro f' hf'; simp only [Option.some.injEq] at hf'; subst hf'
      obtain ⟨d, hd, hcd, hp, hb⟩ := h5 ff rfl
      refine ⟨d, hd, hcd, ?_, hb⟩
      intro p hp'
      rcases List.mem_append.1 hp' with hp' | hp'
      · exact hp p hp'
      · simp only [List.mem_singleton] at hp'; subst hp'; exact hc
  | label =>
    simp only [hc] at h
    obtain ⟨h1, h2, h4, h5, h6⟩ := hs
    cases f with
    | none => simp at h
    | some ff =>
      cases b with
      | some bb => simp at h
      | none =>
        simp only [Option.isNone_some, Bool.false_eq_true, if_false, Option.isSome_none] at h; cases h
        refine ⟨h1, h2, h4, h5, ?_⟩
        intro b' hb'; simp only [Option.some.injEq] at hb'; subst hb'
        exact ⟨i, rfl, hc, (by intro x hx; cases hx)⟩
  | term =>
    simp only [hc] at h
    obtain ⟨h1, h2, h4, h5, h6⟩ := hs
    cases b with
    | none => simp at h
    | some bb =>
      cases f with
      | none => simp at h
      | some ff =>
        simp only at h; cases h
        refine ⟨h1, h2, h4, ?_, (by intro b' hb'; cases hb')⟩
        intro f' hf'; simp only [Option.some.injEq] at hf'; subst hf'
        obtain ⟨d, hd, hcd, hp, hb⟩ := h5 ff rfl
        refine ⟨d, hd, hcd, hp, ?_⟩
        intro b' hb'
        simp only [List.mem_append, List.mem_singleton] at hb'
        rcases hb' with hb' | rfl
        · exact hb b' hb'
        · obtain ⟨l, hl, hcl, hn⟩ := h6 bb rfl
          obtain ⟨bl, bi⟩ := bb
          simp only at hl; subst hl
          exact ⟨l, bi, i, rfl, hcl, hc, hn⟩
  | other =>
    simp only [hc] at h
    cases b with
    | none => simp at h
    | some bb => simp only [pushBlock] at h; cases h; exact cinv_pushBlock L m f bb i hs (by unfold inBlock; rw [hc])

theorem run_cinv (L : LTables) : ∀ (is : List Inst) (s s' : LState), CInv L s → LState.run L s is = .ok s' → CInv L s'
  | [], s, s', hs, h => by simp only [LState.run, Except.ok.injEq] at h; subst h; exact hs
  | i :: is, s, s', hs, h => by
    simp only [LState.run] at h
    cases h1 : s.step L i with
    | error e => rw [h1] at h; cases h
    | ok s1 => rw [h1] at h; exact run_cinv L is s1 s' (step_cinv L s s1 i hs h1) h

theorem cinv_start (L : LTables) (h : Header) : CInv L (LState.start h) :=
  ⟨(by
      intro k hk _ i hi
      have hk' : k = 0 ∨ k = 1 ∨ k = 2 ∨ k = 3 ∨ k = 4 ∨ k = 5 ∨ k = 6 ∨ k = 7 ∨ k = 8 ∨ k = 9 ∨ k = 10 := by omega
      rcases hk' with rfl | rfl | rfl | rfl | rfl | rfl | rfl | rfl | rfl | rfl | rfl <;> simp [LState.start, Module.sect] at hi),
   (by intro i hi; simp [LState.start] at hi), (by intro f hf; simp [LState.start] at hf),
   (by intro f hf; simp [LState.start] at hf), (by intro b hb; simp [LState.start] at hb)⟩

/-- **Every module the loader returns is canonical.** -/
theorem canon_of_load (L : LTables) (h : Header) (is : List Inst) (m : Module Inst) (hl : load L h is = .ok m) :
    Canon L m := by
  unfold load at hl
  cases hrun : LState.run L (LState.start h) is with
  | error e => rw [hrun] at hl; cases hl
  | ok s =>
    rw [hrun] at hl
    simp only at hl
    have hs := run_cinv L is _ s (cinv_start L h) hrun
    unfold LState.finalize at hl
    by_cases hb : s.block.isSome = true
    · simp [hb] at hl
    · by_cases hf : s.function.isSome = true
      · simp [hb, hf] at hl
      · simp only [hb, hf, Bool.false_eq_true, if_false, Except.ok.injEq] at hl
        subst hl; exact ⟨hs.sects, hs.mm, hs.fns⟩

theorem load_header (L : LTables) (h : Header) (is : List Inst) (m : Module Inst) (hl : load L h is = .ok m) :
    m.header = some h := by
  unfold load at hl
  cases hrun : LState.run L (LState.start h) is with
  | error e => rw [hrun] at hl; cases hl
  | ok s =>
    rw [hrun] at hl
    simp only at hl
    have := C01.run_header L is _ s hrun
    unfold LState.finalize at hl
    by_cases hb : s.block.isSome = true
    · simp [hb] at hl
    · by_cases hf : s.function.isSome = true
      · simp [hb, hf] at hl
      · simp only [hb, hf, Bool.false_eq_true, if_false, Except.ok.injEq] at hl
        subst hl; rw [this]; rfl

/-- **C01 (reload, loader level).** Whatever instruction sequence the loader accepted: feeding it the
all-instructions traversal of the module it returned (what `assemble` encodes, in that order) gives the same module
again. -/
theorem C01_reload (L : LTables) (h : Header) (is : List Inst) (m : Module Inst) (hl : load L h is = .ok m) :
    load L h (Rspirv.Props.C15.allInstIter m) = .ok m := by
  rw [load_canon L h m (canon_of_load L h is m hl)]
  have := load_header L h is m hl
  congr 1
  obtain ⟨a0, a1, a2, a3, a4, a5, a6, a7, a8, a9, a10, a11, a12⟩ := m
  simp only at this
  subst this
  rfl

end Rspirv.Props.Reload
