import Rspirv.Generated.Spirv
import Rspirv.Generated.Grammar
import Rspirv.Reference.PinnedGrammar
/-!
# C09 — grammar tables are total, unique and match the pinned grammar

`lookup_opcode`/`get` of `grammar/syntax.rs` are modelled by `lookupOpcode` (first entry whose opcode
equals the number); the correspondence check compares that model with the real functions on all 65 536
numbers. Everything else is a table check over the regenerated tables.
-/
namespace Rspirv.Props.C09
open Rspirv Rspirv.Generated.Grammar Rspirv.Generated.Spirv

def K : KindIx := { idResultType := kind_IdResultType, idResult := kind_IdResult }

def nameOp (t : List Entry) : List (Nat × Nat) := t.map (fun e => (e.name, e.opcode))

/-- the table check: names and numbers are those of the opcode enumerations, numbers are pairwise distinct
and fit 16 bits (core: `inst.opcode as u16`), every entry is well-formed -/
def tablesOk : Bool :=
  samePairs (nameOp coreTable) enum_Op.decl && nodupCheck (coreTable.map (·.opcode)) &&
  coreTable.all (fun e => decide (e.opcode < 65536) && e.wf K kinds.length) &&
  samePairs (nameOp glslTable) enum_GLOp.decl && nodupCheck (glslTable.map (·.opcode)) &&
  glslTable.all (fun e => e.wf K kinds.length) &&
  samePairs (nameOp openclTable) enum_CLOp.decl && nodupCheck (openclTable.map (·.opcode)) &&
  openclTable.all (fun e => e.wf K kinds.length)

theorem tables_ok : tablesOk = true := by decide +kernel

private theorem parts : (samePairs (nameOp coreTable) enum_Op.decl = true ∧ nodupCheck (coreTable.map (·.opcode)) = true ∧
    coreTable.all (fun e => decide (e.opcode < 65536) && e.wf K kinds.length) = true) ∧
    (samePairs (nameOp glslTable) enum_GLOp.decl = true ∧ nodupCheck (glslTable.map (·.opcode)) = true ∧
    glslTable.all (fun e => e.wf K kinds.length) = true) ∧
    (samePairs (nameOp openclTable) enum_CLOp.decl = true ∧ nodupCheck (openclTable.map (·.opcode)) = true ∧
    openclTable.all (fun e => e.wf K kinds.length) = true) := by
  have h := tables_ok
  simp only [tablesOk, Bool.and_eq_true] at h
  obtain ⟨⟨⟨⟨⟨⟨⟨⟨a, b⟩, c⟩, d⟩, e⟩, f⟩, g⟩, i⟩, j⟩ := h
  exact ⟨⟨a, b, c⟩, ⟨d, e, f⟩, ⟨g, i, j⟩⟩

/-- generic consequence for one table/enumeration pair -/
theorem total_unique (t : List Entry) (E : EnumSpec) (hp : samePairs (nameOp t) E.decl = true)
    (hn : nodupCheck (t.map (·.opcode)) = true) (n : Nat) :
    ((lookupOpcode t n).isSome ↔ n ∈ E.declVals) ∧
    (∀ e, lookupOpcode t n = some e → e.opcode = n ∧ (e.name, n) ∈ E.decl) ∧
    (∀ e ∈ t, lookupOpcode t e.opcode = some e) := by
  have perm := perm_of_samePairs _ _ hp
  refine ⟨?_, ?_, ?_⟩
  · rw [lookupOpcode_isSome]
    have : (t.map (·.opcode)) = (nameOp t).map (·.2) := by simp [nameOp]
    rw [this]
    exact (perm.map (·.2)).mem_iff
  · intro e he
    obtain ⟨hm, ho⟩ := lookupOpcode_some t n e he
    refine ⟨ho, ?_⟩
    apply perm.mem_iff.1
    exact List.mem_map.2 ⟨e, hm, by simp [ho]⟩
  · intro e he
    exact lookupOpcode_unique t (nodup_of_check _ hn) e he

/-- **C09 (core table).** For every number `n` (in particular all 65 536 16-bit numbers): the lookup
returns an entry iff `n` is a declared opcode; the entry's opcode is `n` and its name is that opcode's
name in `spirv::Op`; looking up by a declared opcode never fails and returns the unique entry. -/
theorem C09_core (n : Nat) :
    ((lookupOpcode coreTable n).isSome ↔ n ∈ enum_Op.declVals) ∧
    (∀ e, lookupOpcode coreTable n = some e → e.opcode = n ∧ (e.name, n) ∈ enum_Op.decl) ∧
    (∀ e ∈ coreTable, lookupOpcode coreTable e.opcode = some e) :=
  total_unique coreTable enum_Op parts.1.1 parts.1.2.1 n

/-- `CoreInstructionTable::get(op)` never reaches its `expect`: every declared opcode has an entry. -/
theorem C09_get (d : Nat × Nat) (hd : d ∈ enum_Op.decl) : (lookupOpcode coreTable d.2).isSome := by
  rw [(C09_core d.2).1]
  exact List.mem_map.2 ⟨d, hd, rfl⟩

theorem C09_glsl (n : Nat) :
    ((lookupOpcode glslTable n).isSome ↔ n ∈ enum_GLOp.declVals) ∧
    (∀ e, lookupOpcode glslTable n = some e → e.opcode = n ∧ (e.name, n) ∈ enum_GLOp.decl) ∧
    (∀ e ∈ glslTable, lookupOpcode glslTable e.opcode = some e) :=
  total_unique glslTable enum_GLOp parts.2.1.1 parts.2.1.2.1 n

theorem C09_opencl (n : Nat) :
    ((lookupOpcode openclTable n).isSome ↔ n ∈ enum_CLOp.declVals) ∧
    (∀ e, lookupOpcode openclTable n = some e → e.opcode = n ∧ (e.name, n) ∈ enum_CLOp.decl) ∧
    (∀ e ∈ openclTable, lookupOpcode openclTable e.opcode = some e) :=
  total_unique openclTable enum_CLOp parts.2.2.1 parts.2.2.2.1 n

/-- **C09 (well-formed entries).** Every entry of the three tables: result type/result id lead, no required
operand after an optional one, a variadic operand only last. -/
theorem C09_wf (e : Entry) (he : e ∈ coreTable ∨ e ∈ glslTable ∨ e ∈ openclTable) :
    resultsLead K e.ops = true ∧ QuantShape e.ops := by
  have key : e.wf K kinds.length = true := by
    rcases he with h | h | h
    · have := List.all_eq_true.1 parts.1.2.2 e h
      simp only [Bool.and_eq_true] at this; exact this.2
    · exact List.all_eq_true.1 parts.2.1.2.2 e h
    · exact List.all_eq_true.1 parts.2.2.2.2 e h
  simp only [Entry.wf, Bool.and_eq_true] at key
  exact ⟨key.1.1, quantShape_sound _ key.1.2⟩

/-- **C09 (pinned).** Kinds, quantifiers, capabilities and extensions of every entry equal the snapshot of
the pinned SDK release. -/
theorem C09_pinned : kinds = Rspirv.Reference.PinnedGrammar.kinds ∧
    coreTable = Rspirv.Reference.PinnedGrammar.coreTable ∧
    glslTable = Rspirv.Reference.PinnedGrammar.glslTable ∧
    openclTable = Rspirv.Reference.PinnedGrammar.openclTable := by decide +kernel

/-- non-vacuity -/
example : coreTable.length = 787 ∧ (lookupOpcode coreTable 3).isSome = true ∧ (lookupOpcode coreTable 9).isSome = false := by
  decide +kernel

end Rspirv.Props.C09
