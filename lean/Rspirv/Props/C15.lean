import Rspirv.Generic.Traversal
import Rspirv.Generated.Traversals
/-!
# C15 — module traversals visit exactly the assembled instruction sequence

The orders in which the iterators of `dr/constructs.rs` chain the sections, and the statement order of the
`Assemble` impls of `binary/assemble.rs`, are regenerated as data (`Generated.Traversals`). The model
functions of `Rspirv.Model` interpret those orders; the theorems hold for EVERY module value over EVERY
instruction type (missing header, definitions, labels and empty sections included).
-/
namespace Rspirv.Props.C15
open Rspirv.Model Rspirv.Generated.Traversals

/-- the logical layout order: the eleven sections in declaration order -/
def layout : List Nat := [0, 1, 2, 3, 4, 5, 6, 7, 8, 9, 10]

/-- table check on the regenerated orders -/
def ordersOk : Bool :=
  globalIter == layout && globalIterMut == layout && allIter == layout && allIterMut == layout &&
  !globalIterTail && !globalIterMutTail && allIterTail && allIterMutTail &&
  fnIter == [0, 1, 2, 3] && fnIterMut == [0, 1, 2, 3] && fnIterBlock == [0, 1] && fnIterMutBlock == [0, 1] &&
  asmBlock == [0, 1] && asmFunction == [0, 1, 2, 3] && asmModule == [0, 1, 2] && asmHeader == [0, 1, 2, 3, 4]

theorem orders_ok : ordersOk = true := by decide +kernel

variable {ι : Type} (asm : ι → List Nat) (m : Module ι)

/-- the traversals of the code, i.e. the model functions on the regenerated orders -/
def globalInstIter : List ι := m.globalChain globalIter
def globalInstIterMut : List ι := m.globalChain globalIterMut
def allInstIter : List ι := m.allChain allIter allIterTail fnIter fnIterBlock
def allInstIterMut : List ι := m.allChain allIterMut allIterMutTail fnIterMut fnIterMutBlock
def fnAllInstIter (f : Function ι) : List ι := f.chain fnIter fnIterBlock
def fnAllInstIterMut (f : Function ι) : List ι := f.chain fnIterMut fnIterMutBlock
def assemble : List Nat := m.asm asmModule asmHeader globalIter asmFunction asmBlock asm

private theorem parts : (globalIter = layout ∧ globalIterMut = layout ∧ allIter = layout ∧ allIterMut = layout) ∧
    (globalIterTail = false ∧ globalIterMutTail = false ∧ allIterTail = true ∧ allIterMutTail = true) ∧
    (fnIter = [0, 1, 2, 3] ∧ fnIterMut = [0, 1, 2, 3] ∧ fnIterBlock = [0, 1] ∧ fnIterMutBlock = [0, 1]) ∧
    (asmBlock = [0, 1] ∧ asmFunction = [0, 1, 2, 3] ∧ asmModule = [0, 1, 2] ∧ asmHeader = [0, 1, 2, 3, 4]) := by
  have h := orders_ok
  simp only [ordersOk, Bool.and_eq_true, beq_iff_eq, Bool.not_eq_true'] at h
  obtain ⟨⟨⟨⟨⟨⟨⟨⟨⟨⟨⟨⟨⟨⟨⟨a1, a2⟩, a3⟩, a4⟩, b1⟩, b2⟩, b3⟩, b4⟩, c1⟩, c2⟩, c3⟩, c4⟩, d1⟩, d2⟩, d3⟩, d4⟩ := h
  exact ⟨⟨a1, a2, a3, a4⟩, ⟨b1, b2, b3, b4⟩, ⟨c1, c2, c3, c4⟩, ⟨d1, d2, d3, d4⟩⟩

/-- **C15 (structure).** All-instructions traversal = global traversal followed by each function's traversal, in
order; so the global traversal is the prefix preceding the first function and each function contributes its slice. -/
theorem C15_all_eq : allInstIter m = globalInstIter m ++ m.functions.flatMap fnAllInstIter := by
  obtain ⟨⟨a1, _, a3, _⟩, ⟨_, _, b3, _⟩, _, _⟩ := parts
  simp only [allInstIter, globalInstIter, Module.allChain, Module.globalChain, a1, a3, b3, if_true]
  rfl

/-- **C15 (mutable twins).** Each mutable traversal visits the same sequence as its read-only counterpart. -/
theorem C15_mut : globalInstIterMut m = globalInstIter m ∧ allInstIterMut m = allInstIter m ∧
    ∀ f : Function ι, fnAllInstIterMut f = fnAllInstIter f := by
  obtain ⟨⟨a1, a2, a3, a4⟩, ⟨_, _, b3, b4⟩, ⟨c1, c2, c3, c4⟩, _⟩ := parts
  refine ⟨?_, ?_, ?_⟩
  · simp only [globalInstIterMut, globalInstIter, a1, a2]
  · simp only [allInstIterMut, allInstIter, a3, a4, b3, b4, c1, c2, c3, c4]
  · intro f; simp only [fnAllInstIterMut, fnAllInstIter, c1, c2, c3, c4]

/-- **C15 (assembly).** Assembling a module is the header words followed by the assembly of each instruction
visited by the all-instructions traversal, in the same order. -/
theorem C15_assemble : assemble asm m =
    (m.header.map (Header.asm asmHeader)).getD [] ++ (allInstIter m).flatMap asm := by
  obtain ⟨⟨a1, _, a3, _⟩, ⟨_, _, b3, _⟩, ⟨c1, _, c3, _⟩, ⟨d1, d2, d3, _⟩⟩ := parts
  simp only [assemble, allInstIter, d3, d2, d1, a3, b3, c1, c3, a1]
  exact Module.asm_eq asmHeader layout [0, 1, 2, 3] [0, 1] asm m

/-- the traversal spelled out: sections in layout order, then per function def, parameters, each block's label
and instructions, end -/
theorem C15_explicit : allInstIter m =
    m.capabilities ++ m.extensions ++ m.extInstImports ++ m.memoryModel.toList ++ m.entryPoints ++
    m.executionModes ++ m.debugStringSource ++ m.debugNames ++ m.debugModuleProcessed ++ m.annotations ++
    m.typesGlobalValues ++
    m.functions.flatMap (fun f => f.def_.toList ++ f.params ++
      f.blocks.flatMap (fun b => b.label.toList ++ b.insts) ++ f.end_.toList) := by
  obtain ⟨⟨_, _, a3, _⟩, ⟨_, _, b3, _⟩, ⟨c1, _, c3, _⟩, _⟩ := parts
  simp only [allInstIter, Module.allChain, a3, b3, c1, c3, layout, if_true, List.flatMap_cons, List.flatMap_nil,
    Module.sect, List.append_nil, List.append_assoc]
  congr 11
  have hb : ∀ b : Block ι, Block.chain [0, 1] b = b.label.toList ++ b.insts := by
    intro b; simp [Block.chain, Block.piece]
  have hf : ∀ f : Function ι, Function.chain [0, 1, 2, 3] [0, 1] f =
      f.def_.toList ++ (f.params ++ (List.flatMap (fun b => b.label.toList ++ b.insts) f.blocks ++ f.end_.toList)) := by
    intro f
    have hb' : (Block.chain [0, 1] : Block ι → List ι) = fun b => b.label.toList ++ b.insts := funext hb
    simp only [Function.chain, List.flatMap_cons, List.flatMap_nil, Function.piece, List.append_nil, hb']
  have hf' : (Function.chain [0, 1, 2, 3] [0, 1] : Function ι → List ι) = _ := funext hf
  rw [hf']

/-- non-vacuity: a partial module (no header, a function without definition, a block without label) -/
def exBlock : Block Nat := ⟨none, [7, 8]⟩
def exFn : Function Nat := ⟨none, some 9, [6], [exBlock]⟩
def exModule : Module Nat := ⟨none, [1], [], [], some 2, [], [], [], [3], [4], [], [5], [exFn]⟩
example : allInstIter exModule = [1, 2, 3, 4, 5, 6, 7, 8, 9] := by decide +kernel
example : assemble (fun k => [k, k]) exModule = [1, 1, 2, 2, 3, 3, 4, 4, 5, 5, 6, 6, 7, 7, 8, 8, 9, 9] := by decide +kernel

end Rspirv.Props.C15
