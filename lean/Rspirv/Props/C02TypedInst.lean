import Rspirv.Props.C02Typed
import Rspirv.Props.RoundTrip
import Rspirv.Props.C06End
import Rspirv.Props.C02TypedConv
import Rspirv.Props.C01Full
/-!
# The typing judgement on the tables of this tree, and what it buys

* `typed_tables` — `TypedTables theTables` (kernel evaluation on the regenerated grammar table);
* `typedStream_grammar` — a stream of conforming instructions is a `GrammarStream`, so `assemble_load`, `C01_reload_bytes`
  and `C06_roundtrip` apply to modules whose instructions conform by their fields alone;
* `C02_typed` — for the parser model on bytes: every conforming instruction whose words are 32-bit quantities is parsed back
  from the little-endian bytes of its assembled words;
* non-vacuity: concrete conforming instructions.
-/
namespace Rspirv.Props.C02TypedInst
open Rspirv Rspirv.Model Rspirv.Model.DState Rspirv.Model.Typed Rspirv.Instances Rspirv.Props.C02 Rspirv.Props.C02Typed
  Rspirv.Props.RoundTrip

theorem typed_tables : TypedTables theTables where
  good := good_tables
  specLast := by
    have : theTables.core.all (fun e => specLast theTables e.ops) = true := by decide +kernel
    exact fun e he => (List.all_eq_true.1 this) e he
  op16 := by
    have : theTables.core.all (fun e => decide (e.opcode < 65536)) = true := by decide +kernel
    exact fun e he => by simpa using (List.all_eq_true.1 this) e he

theorem typedStream_grammar (G : Tables) (tt : TypedTables G) : ∀ (is : List Inst) (τ : Tracker),
    TypedStream G τ is → GrammarStream G τ is
  | [], _, _ => trivial
  | i :: t, τ, h => by
    obtain ⟨hi, τ1, ht, hrest⟩ := h
    obtain ⟨h1, h2⟩ := typed_grammar G tt τ i hi
    exact ⟨h1, h2, τ1, ht, typedStream_grammar G tt t τ1 hrest⟩

/-- **C02 on the tables of this tree, typing judgement.** -/
theorem C02_typed_spec (τ : Tracker) (i : Inst) (h : InstT theTables τ i) (r' : List Nat) :
    Spec.inst theTables τ (assembleInst i ++ r') = some (i, r') :=
  typed_spec theTables typed_tables τ i h r'

/-- **C02 for the parser, typing judgement.** A conforming instruction whose assembled words are 32-bit quantities, written
as little-endian bytes anywhere in a buffer (after `pre`, before the bytes of further words `r'`): `parse_inst` at that
position delivers exactly that instruction and stops in front of `r'`. -/
theorem C02_typed (τ : Tracker) (idx : Nat) (i : Inst) (h : InstT theTables τ i)
    (r' pre : List Nat) (hw : WordsOk (assembleInst i ++ r')) (hpre : ∀ b ∈ pre, b < 256)
    (hsmall : (pre ++ (assembleInst i ++ r').flatMap Spec.wordBytes).length < 2 ^ 63) :
    ∃ d', parseInst theTables τ idx ⟨pre ++ (assembleInst i ++ r').flatMap Spec.wordBytes, pre.length, none⟩ = (.ok i, d') ∧
      Rspirv.Props.ParserSpec.SView (pre ++ (assembleInst i ++ r').flatMap Spec.wordBytes) d' r' :=
  Rspirv.Props.C02.C02 τ idx (assembleInst i ++ []) i [] (C02_typed_spec τ i h []) h.choose_spec.2.2.2.2 r' pre hw hpre hsmall

/-- typed histories: `C06_roundtrip`'s grammar hypothesis follows from the typing of the module's instructions -/
theorem typedStream_grammar_inst (is : List Inst) (τ : Tracker) (h : TypedStream theTables τ is) :
    GrammarStream theTables τ is := typedStream_grammar theTables typed_tables is τ h

/-- and conversely: a `GrammarStream` whose instructions assemble to 32-bit words is a stream of conforming instructions -/
theorem grammar_typedStream (G : Tables) (tt : TypedTables G) : ∀ (is : List Inst) (τ : Tracker),
    GrammarStream G τ is → (∀ i ∈ is, WordsOk (assembleInst i)) → TypedStream G τ is
  | [], _, _, _ => trivial
  | i :: t, τ, h, hw => by
    obtain ⟨⟨ws, rest, hs⟩, hlen, τ1, ht, hrest⟩ := h
    have h0 := C02_spec G tt.good τ ws i rest hs hlen []
    refine ⟨Rspirv.Props.C02TypedConv.spec_typed G tt.good τ _ i [] h0 (by simpa using hw i (by simp)), τ1, ht, ?_⟩
    exact grammar_typedStream G tt t τ1 hrest (fun x hx => hw x (by simp [hx]))

/-- **every instruction `load_bytes` delivers conforms to the grammar** (typing judgement), the tracker following the stream -/
theorem delivered_typed (bytes : List Nat) (hb : ∀ b ∈ bytes, b < 256) (hs : bytes.length < 2 ^ 63) (m : Module Inst)
    (h : loadBytes theTables theLTables bytes = .ok m) :
    ∃ hd is, load theLTables hd is = .ok m ∧ Rspirv.Props.C01Full.Chunks is (Spec.streamWords bytes) ∧
      TypedStream theTables [] is := by
  obtain ⟨h20, hmagic, _⟩ :=
    Rspirv.Props.C01Full.C01_full theTables theLTables Rspirv.Props.C04.tables_safe good_tables bytes hb hs m h
  -- the delivered instructions are what the recogniser reads from the stream words
  obtain ⟨hd, is, htr, hl⟩ := Rspirv.Props.C01.C01_loadBytes theTables theLTables bytes m h
  obtain ⟨_, htr2⟩ := C03_accept_header theTables Rspirv.Props.C04.tables_safe bytes hb hs h20 hmagic
  rw [htr2] at htr
  have hrest := (List.cons.inj (List.cons.inj htr).2).2
  obtain ⟨his, hfin⟩ := Rspirv.Props.C01Full.map_inst_append _ is _ (by split <;> simp) hrest
  have hall : (Spec.insts theTables (bytes.length + 1) [] (Spec.streamWords bytes)).2 = [] := by
    by_cases hc : (Spec.insts theTables (bytes.length + 1) [] (Spec.streamWords bytes)).2 = []
    · exact hc
    · rw [if_neg hc] at hfin; cases hfin
  have hwok := Rspirv.Props.C01Layout.streamWords_ok bytes hb
  have hch : Rspirv.Props.C01Full.Chunks is (Spec.streamWords bytes) :=
    his ▸ Rspirv.Props.C01Full.insts_chunks theTables good_tables _ [] _ hall
  have hg : GrammarStream theTables [] is := by
    rw [← his]
    exact Rspirv.Props.C01Layout.insts_stream theTables good_tables _ [] _ hwok
  refine ⟨hd, is, hl, hch, grammar_typedStream theTables typed_tables is [] hg ?_⟩
  intro i hi
  obtain ⟨u, _, _, _, r2, _⟩ := hch.reencode hwok i hi
  exact r2

/-! ### non-vacuity: concrete conforming instructions on the tables of this tree -/

/-- `%1 = OpTypeInt 32 0` conforms -/
theorem typeInt_typed : InstT theTables [] ⟨21, none, some 1, [.w 59 32, .w 59 0]⟩ := by
  have hl : lookupOpcode theTables.core 21 = some ⟨95835015724232308, 21, [], [], [(57, 0), (61, 0), (61, 0)]⟩ := by
    decide +kernel
  have hk : theTables.kindActs[61]? = some (.elems [⟨59, 2, 0, 0⟩]) := by decide +kernel
  have c1 : (61 == theTables.kCtxNumber) = false := by decide +kernel
  have c2 : (61 == theTables.kPairLitId) = false := by decide +kernel
  have c3 : (61 == theTables.kSpecOp) = false := by decide +kernel
  have one : ∀ pre x, OneT theTables [] 21 none pre 61 [.w 59 x] := by
    intro pre x
    unfold OneT
    simp only [c1, c2, c3, Bool.false_eq_true, if_false]
    unfold OperandT
    rw [hk]
    exact ElemsT.cons ⟨rfl, by simp⟩ ElemsT.nil
  refine ⟨_, hl, ?_, ?_, ?_, by decide⟩
  · decide +kernel
  · decide +kernel
  · have hf : ([(57, 0), (61, 0), (61, 0)] : List (Nat × Nat)).filter (fun o => !isRes theTables o.1) = [(61, 0), (61, 0)] := by
      decide +kernel
    rw [hf]
    exact LoopT.step (g := [.w 59 32]) rfl (one _ _) (LoopT.step (g := [.w 59 0]) rfl (one _ _) LoopT.nil)

/-- and so it is read back from its four assembled words, whatever follows -/
example (r' : List Nat) : Spec.inst theTables [] (assembleInst ⟨21, none, some 1, [.w 59 32, .w 59 0]⟩ ++ r') =
    some (⟨21, none, some 1, [.w 59 32, .w 59 0]⟩, r') := C02_typed_spec [] _ typeInt_typed r'

end Rspirv.Props.C02TypedInst
