import Rspirv.Props.C10
/-!
# C10 — "decided solely by the integer and float type declarations that precede it"

`Rspirv.Props.C10` states what one `track` step and one `parse_literal` call do. This file lifts the step lemmas to
whole prefixes of a binary (every length, by induction over the instruction list):

* `C10_solely` — the tracker reached after any prefix is the tracker reached after only those instructions of the
  prefix that *can* bind a width: `OpTypeInt`/`OpTypeFloat` declarations and value definitions. Every other
  instruction (no result id, or any other type declaration) can be removed from, or inserted into, the prefix
  without changing a single later width decision.
* `C10_extensional` — the width decision and the tracker's evolution depend on the tracker only through
  `resolve`: two trackers which resolve every id alike decide every literal alike, and still resolve alike after
  tracking the same instruction.
* `C10_newest_wins` — after a declaration `rid ↦ t` and any further instructions none of which defines `rid`
  again, `rid` still resolves to `t`; so the literal is sized by the newest preceding declaration of its type.
-/
namespace Rspirv.Props.C10
open Rspirv Rspirv.Model Rspirv.Model.DState

/-- `track` folded over a prefix of the instruction stream; `none` = the out-of-bounds panic of `track` -/
def trackAll (G : TTables) : List Inst → Tracker → Option Tracker
  | [], τ => some τ
  | i :: is, τ =>
    match τ.track G i with
    | some τ' => trackAll G is τ'
    | none => none

/-- instructions that cannot bind a width: no result id, or a type declaration other than int / float -/
def inert (G : TTables) (i : Inst) : Bool :=
  i.rid.isNone || (G.isType i.opcode && !(i.opcode == G.opTypeInt) && !(i.opcode == G.opTypeFloat))

theorem track_inert (G : TTables) (τ : Tracker) (i : Inst) (h : inert G i = true) : τ.track G i = some τ := by
  unfold inert at h
  cases hr : i.rid with
  | none => simp [Tracker.track, hr]
  | some rid =>
    simp only [hr, Option.isNone_some, Bool.false_or, Bool.and_eq_true, Bool.not_eq_true',
      ] at h
    obtain ⟨⟨hT, h1⟩, h2⟩ := h
    simp [Tracker.track, hr, hT, h1, h2]

/-- **C10 (solely).** For every prefix and every starting tracker: dropping all inert instructions from the prefix
leaves the resulting tracker — and with it every later literal width — unchanged. -/
theorem C10_solely (G : TTables) : ∀ (is : List Inst) (τ : Tracker),
    trackAll G is τ = trackAll G (is.filter (fun i => !inert G i)) τ
  | [], _ => rfl
  | i :: is, τ => by
    cases h : inert G i with
    | true =>
      have : (i :: is).filter (fun i => !inert G i) = is.filter (fun i => !inert G i) := by
        simp [h]
      rw [this, trackAll, track_inert G τ i h]
      exact C10_solely G is τ
    | false =>
      have : (i :: is).filter (fun i => !inert G i) = i :: is.filter (fun i => !inert G i) := by
        simp [h]
      rw [this, trackAll, trackAll]
      cases τ.track G i with
      | none => rfl
      | some τ' => exact C10_solely G is τ'

/-- two trackers that resolve every id alike -/
def Agree (τ₁ τ₂ : Tracker) : Prop := ∀ id, τ₁.resolve id = τ₂.resolve id

theorem agree_cons (τ₁ τ₂ : Tracker) (h : Agree τ₁ τ₂) (rid : Nat) (t : TType) :
    Agree ((rid, t) :: τ₁) ((rid, t) :: τ₂) := by
  intro id; rw [resolve_cons, resolve_cons, h id]

/-- one `track` step either leaves the tracker alone or binds the instruction's own result id -/
theorem track_shape (G : TTables) (τ τ' : Tracker) (i : Inst) (h : τ.track G i = some τ') :
    τ' = τ ∨ ∃ rid t, i.rid = some rid ∧ τ' = (rid, t) :: τ := by
  unfold Tracker.track at h
  split at h
  · left; exact (Option.some.inj h).symm
  · rename_i rid hr
    split at h
    · split at h
      · split at h
        · split at h
          · split at h
            · right; exact ⟨rid, _, hr, (Option.some.inj h).symm⟩
            · left; exact (Option.some.inj h).symm
          · left; exact (Option.some.inj h).symm
        · cases h
      · split at h
        · split at h
          · split at h
            · split at h
              · right; exact ⟨rid, _, hr, (Option.some.inj h).symm⟩
              · left; exact (Option.some.inj h).symm
            · left; exact (Option.some.inj h).symm
          · cases h
        · left; exact (Option.some.inj h).symm
    · split at h
      · right; exact ⟨rid, _, hr, (Option.some.inj h).symm⟩
      · left; exact (Option.some.inj h).symm

/-- what one `track` step binds, as a function of the instruction and of `resolve` alone: `none` = the
out-of-bounds panic, `some none` = nothing bound -/
def binding (G : TTables) (res : Nat → Option TType) (i : Inst) : Option (Option (Nat × TType)) :=
  match i.rid with
  | none => some none
  | some rid =>
    if G.isType i.opcode then
      if i.opcode == G.opTypeInt then
        match i.operands with
        | o0 :: o1 :: _ =>
          match o0, o1 with
          | .w v0 bits, .w v1 sign => if v0 == G.vLit32 && v1 == G.vLit32 then some (some (rid, .int bits (sign == 1))) else some none
          | _, _ => some none
        | _ => none
      else if i.opcode == G.opTypeFloat then
        match i.operands with
        | o0 :: _ =>
          match o0 with
          | .w v0 bits => if v0 == G.vLit32 then some (some (rid, .float bits)) else some none
          | _ => some none
        | _ => none
      else some none
    else
      match i.rtype.bind res with
      | some t => some (some (rid, t))
      | none => some none

/-- push the binding, if any -/
def bindInto (τ : Tracker) : Option (Nat × TType) → Tracker
  | some b => b :: τ
  | none => τ

/-- `track` = compute the binding from `resolve`, then push it -/
theorem track_eq_binding (G : TTables) (τ : Tracker) (i : Inst) :
    τ.track G i = (binding G τ.resolve i).map (bindInto τ) := by
  obtain ⟨opc, rt, rid, ops⟩ := i
  cases rid with
  | none => rfl
  | some rid =>
    simp only [Tracker.track, binding]
    cases hT : G.isType opc with
    | false =>
      simp only [Bool.false_eq_true, if_false]
      cases rt.bind τ.resolve <;> rfl
    | true =>
      simp only [if_true]
      cases h1 : opc == G.opTypeInt with
      | true =>
        simp only [if_true]
        cases ops with
        | nil => rfl
        | cons o0 tl =>
          cases tl with
          | nil => rfl
          | cons o1 tl' =>
            cases o0 <;> cases o1 <;> try rfl
            simp only
            split <;> rfl
      | false =>
        simp only [Bool.false_eq_true, if_false]
        cases h2 : opc == G.opTypeFloat with
        | true =>
          simp only [if_true]
          cases ops with
          | nil => rfl
          | cons o0 tl =>
            cases o0 <;> try rfl
            simp only
            split <;> rfl
        | false => rfl

theorem agree_bindInto (τ₁ τ₂ : Tracker) (h : Agree τ₁ τ₂) (b : Option (Nat × TType)) :
    Agree (bindInto τ₁ b) (bindInto τ₂ b) := by
  cases b with
  | none => exact h
  | some p => exact agree_cons τ₁ τ₂ h p.1 p.2

/-- **C10 (extensionality).** The width decision reads the tracker only through `resolve`, and `track` preserves
agreement: whatever else differs between two tracker states (order of unrelated bindings, shadowed bindings) never
shows in a literal's width, now or after any number of further instructions. -/
theorem C10_extensional (G : Tables) (τ₁ τ₂ : Tracker) (h : Agree τ₁ τ₂) :
    (∀ idx t d, parseLiteral G τ₁ idx t d = parseLiteral G τ₂ idx t d) ∧
    (∀ (T : TTables) (i : Inst), ∃ b : Option (Option (Nat × TType)), τ₁.track T i = b.map (bindInto τ₁) ∧ τ₂.track T i = b.map (bindInto τ₂)) := by
  have hres : τ₁.resolve = τ₂.resolve := funext h
  constructor
  · intro idx t d
    unfold parseLiteral
    rw [h t]
  · intro T i
    exact ⟨binding T τ₁.resolve i, track_eq_binding T τ₁ i, by rw [hres]; exact track_eq_binding T τ₂ i⟩

/-- agreement survives every prefix: both runs panic together or end in agreeing trackers -/
theorem C10_extensional_run (T : TTables) : ∀ (is : List Inst) (τ₁ τ₂ : Tracker), Agree τ₁ τ₂ →
    (trackAll T is τ₁ = none ∧ trackAll T is τ₂ = none) ∨
    ∃ a b, trackAll T is τ₁ = some a ∧ trackAll T is τ₂ = some b ∧ Agree a b
  | [], τ₁, τ₂, h => Or.inr ⟨τ₁, τ₂, rfl, rfl, h⟩
  | i :: is, τ₁, τ₂, h => by
    have hres : τ₁.resolve = τ₂.resolve := funext h
    simp only [trackAll, track_eq_binding, ← hres]
    cases binding T τ₁.resolve i with
    | none => exact Or.inl ⟨rfl, rfl⟩
    | some b =>
      simp only [Option.map_some]
      exact C10_extensional_run T is _ _ (agree_bindInto τ₁ τ₂ h b)

/-- **C10 (newest preceding declaration wins).** If `rid` resolves to `r` and none of the following instructions
defines `rid` again, `rid` still resolves to `r` after them — for every number of instructions in between. -/
theorem C10_newest_wins (G : TTables) : ∀ (is : List Inst) (τ τ' : Tracker) (rid : Nat) (r : Option TType),
    τ.resolve rid = r → (∀ i ∈ is, i.rid ≠ some rid) → trackAll G is τ = some τ' → τ'.resolve rid = r
  | [], τ, τ', rid, r, hr, _, h => by
    simp only [trackAll] at h; cases h; exact hr
  | i :: is, τ, τ', rid, r, hr, hn, h => by
    simp only [trackAll] at h
    cases ht : τ.track G i with
    | none => rw [ht] at h; cases h
    | some τ₁ =>
      rw [ht] at h
      have hr1 : τ₁.resolve rid = r := by
        rcases track_shape G τ τ₁ i ht with rfl | ⟨x, t, hx, rfl⟩
        · exact hr
        · rw [resolve_cons]
          have : x ≠ rid := by
            intro e; subst e; exact hn i (List.mem_cons_self) hx
          simp [this, hr]
      exact C10_newest_wins G is τ₁ τ' rid r hr1 (fun j hj => hn j (List.mem_cons_of_mem _ hj)) h

/-- the declaration, anything that does not redefine it, then the constant: the literal has the declared width -/
theorem C10_decl_reaches (G : TTables) (τ τ' : Tracker) (rid bits sign : Nat) (rest : List Operand) (mid : List Inst)
    (hT : G.isType G.opTypeInt = true) (hn : ∀ i ∈ mid, i.rid ≠ some rid)
    (h : trackAll G (⟨G.opTypeInt, none, some rid, .w G.vLit32 bits :: .w G.vLit32 sign :: rest⟩ :: mid) τ = some τ') :
    litWords (τ'.resolve rid) = litWords (some (.int bits (sign == 1))) := by
  simp only [trackAll, C10_track_int G τ rid bits sign rest hT] at h
  rw [C10_newest_wins G mid _ τ' rid (some (.int bits (sign == 1))) (by rw [resolve_cons]; simp) hn h]

/-! ### the parse loop uses exactly `trackAll` of the instructions it has delivered -/

theorem trackAll_snoc (G : TTables) : ∀ (is : List Inst) (i : Inst) (τ : Tracker),
    trackAll G (is ++ [i]) τ = (trackAll G is τ).bind (fun τ' => τ'.track G i)
  | [], i, τ => by
    simp only [List.nil_append, trackAll, Option.bind_some]
    cases τ.track G i <;> rfl
  | j :: is, i, τ => by
    simp only [List.cons_append, trackAll]
    cases τ.track G j with
    | none => rfl
    | some τ' => exact trackAll_snoc G is i τ'

/-- the instructions among the callback events, oldest first (`tr` is the loop's newest-first event list) -/
def delivered (tr : List Ev) : List Inst :=
  tr.reverse.filterMap (fun e => match e with | .inst i => some i | _ => none)

theorem delivered_inst (i : Inst) (tr : List Ev) : delivered (.inst i :: tr) = delivered tr ++ [i] := by
  simp [delivered, List.filterMap_append]

/-- the parse loop with the tracker argument removed: the tracker is recomputed from the delivered instructions -/
def parseLoopD (G : Tables) (script : Nat → Action) : Nat → Nat → Nat → DState → List Ev → Run
  | 0, _, _, _, tr => ⟨.panic "parse: no progress", tr.reverse⟩
  | fuel + 1, k, idx, d, tr =>
    match trackAll G.tt (delivered tr) [] with
    | none => ⟨.panic "tracker: operand index", tr.reverse⟩
    | some τ =>
      match parseInst G τ (idx + 1) d with
      | (.ok i, d1) =>
        match τ.track G.tt i with
        | none => ⟨.panic "tracker: operand index", tr.reverse⟩
        | some _ =>
          let tr1 := Ev.inst i :: tr
          match consume (script k) k with
          | some e => ⟨.err e, tr1.reverse⟩
          | none => parseLoopD G script fuel (k + 1) (idx + 1) d1 tr1
      | (.err .complete, _) =>
        let tr1 := Ev.fin :: tr
        match consume (script k) k with
        | some e => ⟨.err e, tr1.reverse⟩
        | none => ⟨.ok (), tr1.reverse⟩
      | (.err e, _) => ⟨.err (.inst e), tr.reverse⟩
      | (.panic s, _) => ⟨.panic s, tr.reverse⟩

/-- **C10 (the context is the delivered prefix).** Whenever the loop's tracker is the fold of `track` over the
instructions delivered so far, the loop equals the loop that *recomputes* its tracker from those instructions at every
step; so each width decision is a function of the instructions that precede the literal in this binary, and of
nothing else. -/
theorem parseLoop_eq_D (G : Tables) (script : Nat → Action) : ∀ (fuel : Nat) (τ : Tracker) (k idx : Nat) (d : DState)
    (tr : List Ev), trackAll G.tt (delivered tr) [] = some τ →
    parseLoop G script fuel τ k idx d tr = parseLoopD G script fuel k idx d tr
  | 0, _, _, _, _, _, _ => rfl
  | fuel + 1, τ, k, idx, d, tr, h => by
    simp only [parseLoop, parseLoopD, h]
    cases hp : parseInst G τ (idx + 1) d with
    | mk r d1 =>
      cases r with
      | ok i =>
        simp only
        cases ht : τ.track G.tt i with
        | none => rfl
        | some τ1 =>
          simp only
          cases consume (script k) k with
          | some e => rfl
          | none =>
            simp only
            apply parseLoop_eq_D G script fuel τ1
            rw [delivered_inst, trackAll_snoc, h]; exact ht
      | err e => cases e <;> rfl
      | panic s => rfl

/-- **C10 (whole parse).** From the header on, `parse` runs the tracker-free loop: no state other than the delivered
instructions of this very binary reaches a width decision. -/
theorem C10_parse_D (G : Tables) (script : Nat → Action) (bytes : List Nat) (h : Header) (d1 : DState)
    (h0 : consume (script 0) 0 = none) (h1 : consume (script 1) 1 = none)
    (hh : parseHeader G (DState.new bytes) = (.ok h, d1)) :
    parse G script bytes = parseLoopD G script (bytes.length + 1) 2 0 d1 [.header h, .init] := by
  rw [C10_fresh G script bytes h d1 h0 h1 hh]
  exact parseLoop_eq_D G script _ [] 2 0 d1 _ rfl

/-- **C10 (switch).** Each case of an `OpSwitch` — a literal followed by a target id — has its literal sized by the
tracked type of the *selector* (the instruction's first operand, an id reference), whatever the instruction's other
fields are: the literal's outcome is `parse_literal` at the selector, then one word for the target. -/
theorem C10_switch_uses_selector (G : Tables) (τ : Tracker) (idx sel : Nat) (a : Acc) (rest : List Operand) (d : DState)
    (hk : G.kPairLitId ≠ G.kIdResultType ∧ G.kPairLitId ≠ G.kIdResult ∧ G.kPairLitId ≠ G.kCtxNumber)
    (hops : a.ops = .w G.vIdRef sel :: rest) :
    (∀ lit d1 tgt d2, parseLiteral G τ idx sel d = (.ok lit, d1) → DState.word d1 = (.ok tgt, d2) →
      parseOne G τ idx G.opSwitch G.kPairLitId a d = (.ok { a with ops := a.ops ++ [lit, .w G.vIdRef tgt] }, d2)) ∧
    (∀ x d1, parseLiteral G τ idx sel d = (.err x, d1) →
      parseOne G τ idx G.opSwitch G.kPairLitId a d = (.err x, d1)) := by
  have h1 : (G.kPairLitId == G.kIdResultType) = false := by simpa using hk.1
  have h2 : (G.kPairLitId == G.kIdResult) = false := by simpa using hk.2.1
  have h3 : (G.kPairLitId == G.kCtxNumber) = false := by simpa using hk.2.2
  constructor
  · intro lit d1 tgt d2 hl hw; simp [parseOne, h1, h2, h3, hops, hl, hw]
  · intro x d1 hl; simp [parseOne, h1, h2, h3, hops, hl]

/-- non-vacuity: a prefix with an inert instruction in the middle; the 64-bit declaration survives it -/
example :
    let G : TTables := ⟨fun o => o == 21 || o == 22 || o == 19, 21, 22, 7⟩
    trackAll G [⟨21, none, some 1, [.w 7 64, .w 7 0]⟩, ⟨19, none, some 2, []⟩, ⟨248, none, some 3, []⟩] []
      = some [(1, .int 64 false)] ∧ inert G ⟨19, none, some 2, []⟩ = true ∧
    inert G ⟨21, none, some 1, [.w 7 64, .w 7 0]⟩ = false := by decide

end Rspirv.Props.C10
