import Rspirv.Model.Assemble
import Rspirv.Generated.Traversals
/-!
# C15 — `Instruction::assemble_into` appends the instruction's own assembly, wherever it is placed

`impl Assemble for dr::Instruction` (binary/assemble.rs) is regenerated statement by statement as a small program
over the output buffer (`Generated.Traversals.asmInstruction`). `instInto` interprets that program on an arbitrary
buffer; the theorem says the result is the buffer followed by `assembleInst i` — the words the instruction has on
its own — for EVERY buffer content and length. This is what lets `Module.asm` be a `flatMap` of per-instruction
assemblies (C15_assemble): the assembly of an instruction does not depend on its position in the output.
-/
namespace Rspirv.Props.C15Inst
open Rspirv.Model

/-- the locals of the function body: the output vector, `start`, `end` -/
structure St where
  buf : List Nat
  start : Nat
  end_ : Nat

/-- one statement. `(6, sh)` is `result[start] |= (end as u32) << sh` on 32-bit words (`as u32` truncates, bits
shifted out are lost; an index beyond the buffer panics in Rust — here the buffer is left alone, and the theorem
below shows the program never gets there) -/
def stmt (i : Inst) (s : St) : Nat × Nat → St
  | (0, _) => { s with start := s.buf.length }
  | (1, _) => { s with buf := s.buf ++ [i.opcode] }
  | (2, _) => { s with buf := s.buf ++ i.rtype.toList }
  | (3, _) => { s with buf := s.buf ++ i.rid.toList }
  | (4, _) => { s with buf := s.buf ++ i.operands.flatMap encodeOperand }
  | (5, _) => { s with end_ := s.buf.length - s.start }
  | (6, sh) => { s with buf := s.buf.set s.start (s.buf.getD s.start 0 ||| (s.end_ % 4294967296 * 2 ^ sh % 4294967296)) }
  | _ => s

/-- `i.assemble_into(&mut buf)` -/
def instInto (prog : List (Nat × Nat)) (buf : List Nat) (i : Inst) : List Nat :=
  (prog.foldl (stmt i) ⟨buf, 0, 0⟩).buf

theorem prog_eq : Rspirv.Generated.Traversals.asmInstruction = [(0, 0), (1, 0), (2, 0), (3, 0), (4, 0), (5, 0), (6, 16)] := by
  decide

/-- **C15 (instruction level).** Assembling an instruction into a buffer appends exactly its stand-alone assembly:
the buffer's earlier content is untouched and the appended words do not depend on the buffer. -/
theorem C15_inst_into (buf : List Nat) (i : Inst) :
    instInto Rspirv.Generated.Traversals.asmInstruction buf i = buf ++ assembleInst i := by
  rw [prog_eq]
  simp only [instInto, List.foldl, stmt, assembleInst]
  generalize hb : i.rtype.toList ++ i.rid.toList ++ List.flatMap encodeOperand i.operands = body
  have e : buf ++ [i.opcode] ++ i.rtype.toList ++ i.rid.toList ++ List.flatMap encodeOperand i.operands =
      buf ++ i.opcode :: body := by simp [← hb]
  rw [e]
  have hlen : (buf ++ i.opcode :: body).length - buf.length = body.length + 1 := by simp
  have hget : (buf ++ i.opcode :: body).getD buf.length 0 = i.opcode := by simp
  have hm : (body.length + 1) % 4294967296 * 2 ^ 16 % 4294967296 = (body.length + 1) * 65536 % 4294967296 := by omega
  rw [hlen, hget, hm]
  simp

/-- the stand-alone entry point `assemble()` is the same on the empty buffer -/
theorem C15_inst_alone (i : Inst) : instInto Rspirv.Generated.Traversals.asmInstruction [] i = assembleInst i := by
  rw [C15_inst_into]; rfl

example : instInto Rspirv.Generated.Traversals.asmInstruction [9, 9] ⟨1, some 5, some 6, [.w 0 7]⟩ = [9, 9, 262145, 5, 6, 7] := by
  decide

end Rspirv.Props.C15Inst
