import Rspirv.Model.Assemble
import Rspirv.Model.Module
import Rspirv.Generated.Traversals
import Rspirv.Props.C15
/-!
# C15 — `Instruction::assemble_into` appends the instruction's own assembly, wherever it is placed

`impl Assemble for dr::Instruction` (binary/assemble.rs) is regenerated statement by statement as a small program
over the output buffer (`Generated.Traversals.asmInstruction`). `instInto` interprets that program on an arbitrary
buffer; the theorem says the result is the buffer followed by `assembleInst i` — the words the instruction has on
its own — for EVERY buffer content and length. This is what lets `Module.asm` be a `flatMap` of per-instruction
assemblies (C15_assemble): the assembly of an instruction does not depend on its position in the output.
-/
namespace Rspirv.Props.C15Inst
open Rspirv.Model

/-- the locals of the function body: the output vector, `start`, `end` -/
structure St where
  buf : List Nat
  start : Nat
  end_ : Nat

/-- one statement. `(6, sh)` is `result[start] |= (end as u32) << sh` on 32-bit words (`as u32` truncates, bits
shifted out are lost; an index beyond the buffer panics in Rust — here the buffer is left alone, and the theorem
below shows the program never gets there) -/
def stmt (i : Inst) (s : St) : Nat × Nat → St
  | (0, _) => { s with start := s.buf.length }
  | (1, _) => { s with buf := s.buf ++ [i.opcode] }
  | (2, _) => { s with buf := s.buf ++ i.rtype.toList }
  | (3, _) => { s with buf := s.buf ++ i.rid.toList }
  | (4, _) => { s with buf := s.buf ++ i.operands.flatMap encodeOperand }
  | (5, _) => { s with end_ := s.buf.length - s.start }
  | (6, sh) => { s with buf := s.buf.set s.start (s.buf.getD s.start 0 ||| (s.end_ % 4294967296 * 2 ^ sh % 4294967296)) }
  | _ => s

/-- `i.assemble_into(&mut buf)` -/
def instInto (prog : List (Nat × Nat)) (buf : List Nat) (i : Inst) : List Nat :=
  (prog.foldl (stmt i) ⟨buf, 0, 0⟩).buf

theorem prog_eq : Rspirv.Generated.Traversals.asmInstruction = [(0, 0), (1, 0), (2, 0), (3, 0), (4, 0), (5, 0), (6, 16)] := by
  decide

/-- **C15 (instruction level).** Assembling an instruction into a buffer appends exactly its stand-alone assembly:
the buffer's earlier content is untouched and the appended words do not depend on the buffer. -/
theorem C15_inst_into (buf : List Nat) (i : Inst) :
    instInto Rspirv.Generated.Traversals.asmInstruction buf i = buf ++ assembleInst i := by
  rw [prog_eq]
  simp only [instInto, List.foldl, stmt, assembleInst]
  generalize hb : i.rtype.toList ++ i.rid.toList ++ List.flatMap encodeOperand i.operands = body
  have e : buf ++ [i.opcode] ++ i.rtype.toList ++ i.rid.toList ++ List.flatMap encodeOperand i.operands =
      buf ++ i.opcode :: body := by simp [← hb]
  rw [e]
  have hlen : (buf ++ i.opcode :: body).length - buf.length = body.length + 1 := by simp
  have hget : (buf ++ i.opcode :: body).getD buf.length 0 = i.opcode := by simp
  have hm : (body.length + 1) % 4294967296 * 2 ^ 16 % 4294967296 = (body.length + 1) * 65536 % 4294967296 := by omega
  rw [hlen, hget, hm]
  simp

/-- the stand-alone entry point `assemble()` is the same on the empty buffer -/
theorem C15_inst_alone (i : Inst) : instInto Rspirv.Generated.Traversals.asmInstruction [] i = assembleInst i := by
  rw [C15_inst_into]; rfl

/-! ### `assemble_str`: the translated body appends `packStr`

`fn assemble_str(s: &str, result: &mut Vec<u32>)` is regenerated as six statements (`Generated.Traversals.asmStr`; chunk size and array
length are data). `strInto` interprets them — `chunks_exact(n)` / `remainder()`, a zeroed array, `copy_from_slice` of the remainder into
its front, `extend` with the little-endian word of each chunk, `push` of the last word — and the theorem identifies the result with the
buffer followed by the hand-written `packStr` that `encodeOperand` (C01, C02, C06) uses. -/

/-- `chunks_exact(4)`: the full four-byte chunks and the remainder (fewer than four bytes) -/
def chunks4 : List Nat → List (List Nat) × List Nat
  | b0 :: b1 :: b2 :: b3 :: t => match chunks4 t with
    | (cs, r) => ([b0, b1, b2, b3] :: cs, r)
  | r => ([], r)

structure SSt where
  chunks : List (List Nat)
  rem : List Nat
  last : List Nat
  buf : List Nat

def sstmt (bytes : List Nat) (s : SSt) : Nat × Nat → SSt
  | (0, n) => if n = 4 then { s with chunks := (chunks4 bytes).1 } else s
  | (1, _) => { s with rem := (chunks4 bytes).2 }
  | (2, n) => { s with last := List.replicate n 0 }
  | (3, _) => { s with last := s.rem ++ s.last.drop s.rem.length }
  | (4, _) => { s with buf := s.buf ++ s.chunks.map leWord }
  | (5, _) => { s with buf := s.buf ++ [leWord s.last] }
  | _ => s

/-- `assemble_str(s, &mut buf)` on the bytes of `s` -/
def strInto (prog : List (Nat × Nat)) (buf : List Nat) (bytes : List Nat) : List Nat :=
  (prog.foldl (sstmt bytes) ⟨[], [], [], buf⟩).buf

theorem strProg_eq : Rspirv.Generated.Traversals.asmStr = [(0, 4), (1, 0), (2, 4), (3, 0), (4, 0), (5, 0)] := by decide

theorem chunks4_pack (bytes : List Nat) :
    ((chunks4 bytes).1.map leWord ++ [leWord ((chunks4 bytes).2 ++ (List.replicate 4 0).drop (chunks4 bytes).2.length)]) = packStr bytes := by
  fun_induction packStr bytes with
  | case1 b0 b1 b2 b3 t ih =>
    simp only [chunks4]
    cases h : chunks4 t with
    | mk cs r =>
      simp only [h] at ih
      simp only [List.map_cons, List.cons_append]
      exact congrArg _ ih
  | case2 r hr =>
    have hc : chunks4 r = ([], r) := by
      unfold chunks4
      split
      · exact absurd rfl (hr _ _ _ _ _)
      · rfl
    rw [hc]
    match r, hr with
    | [], _ => simp [leWord]
    | [a], _ => simp [leWord]
    | [a, b], _ => simp [leWord]
    | [a, b, c], _ => simp [leWord]
    | a :: b :: c :: d :: t, hr => exact absurd rfl (hr a b c d t)

/-- **`assemble_str` appends `packStr`**, whatever the buffer holds. -/
theorem C15_str_into (buf bytes : List Nat) :
    strInto Rspirv.Generated.Traversals.asmStr buf bytes = buf ++ packStr bytes := by
  rw [strProg_eq]
  simp only [strInto, List.foldl, sstmt, if_true]
  rw [List.append_assoc, chunks4_pack]

example : strInto Rspirv.Generated.Traversals.asmStr [9] [97, 98, 99, 100, 101] = [9, 1684234849, 101] := by decide

/-! ### the containers: `Block`, `Function`, `Module` thread ONE output buffer through their parts

`assemble_into(&self, result: &mut Vec<u32>)` of a block, function or module hands the same vector to each part in turn
(`for x in .. { x.assemble_into(result) }`). `*.asmInto` below is that buffer-threading reading of the translated statement
orders; the theorems say it equals the buffer followed by the `flatMap` reading (`Module.asm`) that `C15_assemble` is
stated for — provided each instruction appends its own assembly, which `C15_inst_into` proves for the translated body. -/

section containers
variable {ι : Type}

theorem foldl_into (f : List Nat → ι → List Nat) (g : ι → List Nat) (h : ∀ buf x, f buf x = buf ++ g x)
    (xs : List ι) (buf : List Nat) : xs.foldl f buf = buf ++ xs.flatMap g := by
  induction xs generalizing buf with
  | nil => simp
  | cons x xs ih => simp [List.foldl_cons, ih, h, List.append_assoc]

def blockInto (ab : List Nat) (into : List Nat → ι → List Nat) (buf : List Nat) (b : Block ι) : List Nat :=
  ab.foldl (fun r p => (b.piece p).foldl into r) buf

def functionIntoPiece (ab : List Nat) (into : List Nat → ι → List Nat) (f : Function ι) (r : List Nat) : Nat → List Nat
  | 0 => f.def_.toList.foldl into r
  | 1 => f.params.foldl into r
  | 2 => f.blocks.foldl (blockInto ab into) r
  | 3 => f.end_.toList.foldl into r
  | _ => r

def functionInto (af ab : List Nat) (into : List Nat → ι → List Nat) (buf : List Nat) (f : Function ι) : List Nat :=
  af.foldl (functionIntoPiece ab into f) buf

/-- `result.extend([..fields..])` -/
def headerInto (ah : List Nat) (buf : List Nat) (h : Header) : List Nat := buf ++ ah.flatMap h.field

def moduleIntoPiece (ah go af ab : List Nat) (into : List Nat → ι → List Nat) (m : Module ι) (r : List Nat) : Nat → List Nat
  | 0 => match m.header with
    | some h => headerInto ah r h
    | none => r
  | 1 => (m.globalChain go).foldl into r
  | 2 => m.functions.foldl (functionInto af ab into) r
  | _ => r

/-- `Module::assemble_into(&self, result)` -/
def moduleInto (am ah go af ab : List Nat) (into : List Nat → ι → List Nat) (buf : List Nat) (m : Module ι) : List Nat :=
  am.foldl (moduleIntoPiece ah go af ab into m) buf

variable (into : List Nat → ι → List Nat) (asm : ι → List Nat) (h : ∀ buf x, into buf x = buf ++ asm x)
include h

theorem blockInto_eq (ab : List Nat) (buf : List Nat) (b : Block ι) : blockInto ab into buf b = buf ++ Block.asm ab asm b := by
  unfold blockInto Block.asm
  exact foldl_into _ _ (fun r p => foldl_into into asm h (b.piece p) r) ab buf

theorem functionInto_eq (af ab : List Nat) (buf : List Nat) (f : Function ι) :
    functionInto af ab into buf f = buf ++ Function.asm af ab asm f := by
  unfold functionInto Function.asm
  refine foldl_into _ _ (fun r p => ?_) af buf
  match p with
  | 0 => exact foldl_into into asm h _ r
  | 1 => exact foldl_into into asm h _ r
  | 2 => exact foldl_into _ _ (blockInto_eq into asm h ab) _ r
  | 3 => exact foldl_into into asm h _ r
  | _ + 4 => simp [functionIntoPiece, Function.asmPiece]

theorem moduleInto_eq (am ah go af ab : List Nat) (buf : List Nat) (m : Module ι) :
    moduleInto am ah go af ab into buf m = buf ++ Module.asm am ah go af ab asm m := by
  unfold moduleInto Module.asm
  refine foldl_into _ _ (fun r p => ?_) am buf
  match p with
  | 0 =>
    simp only [moduleIntoPiece, Module.asmPiece]
    cases m.header with
    | none => simp
    | some hd => simp [headerInto, Header.asm]
  | 1 => exact foldl_into into asm h _ r
  | 2 => exact foldl_into _ _ (functionInto_eq into asm h af ab) _ r
  | _ + 3 => simp [moduleIntoPiece, Module.asmPiece]

end containers

open Rspirv.Generated.Traversals in
/-- **C15 (module level, one shared buffer).** `Module::assemble_into` — the translated statement orders of the four container impls
threading one vector, with the translated body of `Instruction::assemble_into` at the leaves — leaves the buffer's earlier content
untouched and appends exactly the module's stand-alone assembly (`C15.assemble`, which `C15_assemble` shows to be the header words
followed by the assembly of each instruction visited by `all_inst_iter`). -/
theorem C15_module_into (buf : List Nat) (m : Module Inst) :
    moduleInto asmModule asmHeader globalIter asmFunction asmBlock (instInto asmInstruction) buf m =
      buf ++ Module.asm asmModule asmHeader globalIter asmFunction asmBlock assembleInst m :=
  moduleInto_eq _ _ C15_inst_into _ _ _ _ _ buf m

open Rspirv.Generated.Traversals in
/-- **C15, from the Rust text to the statement of the property.** What `Module::assemble_into` does — the translated bodies of the module,
function, block, header and instruction impls threading one output vector — is: leave the vector's earlier content alone and append the
header words followed by the assembly of each instruction visited by `all_inst_iter`, in that order. -/
theorem C15_full (buf : List Nat) (m : Module Inst) :
    moduleInto asmModule asmHeader globalIter asmFunction asmBlock (instInto asmInstruction) buf m =
      buf ++ ((m.header.map (Header.asm asmHeader)).getD [] ++ (Rspirv.Props.C15.allInstIter m).flatMap assembleInst) := by
  rw [C15_module_into]
  exact congrArg _ (Rspirv.Props.C15.C15_assemble assembleInst m)

example : instInto Rspirv.Generated.Traversals.asmInstruction [9, 9] ⟨1, some 5, some 6, [.w 0 7]⟩ = [9, 9, 262145, 5, 6, 7] := by
  decide

end Rspirv.Props.C15Inst
