import Rspirv.Props.C16
import Rspirv.Props.C06
/-! C16: the predicates against the specification classes (`Props/C16.lean`) and the clause "the Builder ends a block for
exactly the opcodes the terminator predicate accepts" (`C06_terminators`, `terminators_covered` in `Props/C06.lean`) together -/
