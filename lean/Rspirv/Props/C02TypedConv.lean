import Rspirv.Props.C02Typed
import Rspirv.Props.C01Layout
/-!
# The typing judgement is exact: everything the recogniser delivers conforms

`C02Typed.lean` proves `InstT G τ i → Spec.inst G τ (assembleInst i ++ r) = some (i, r)`. Here the converse
(`spec_typed`): an instruction the recogniser delivers from 32-bit words conforms to the grammar in the sense of the
typing judgement. Together (`typed_iff`): **`InstT` characterises exactly the instructions of the grammar** — the image of
the parser — by their fields alone, so it is neither too weak (every conforming instruction round-trips) nor too strong
(nothing the parser can deliver is excluded).
-/
namespace Rspirv.Props.C02TypedConv
open Rspirv Rspirv.Model Rspirv.Model.DState Rspirv.Model.Typed Rspirv.Props.C02 Rspirv.Props.C04 Rspirv.Props.C02Typed

theorem str_conv (ws bs rest : List Nat) (h : Spec.str ws = some (bs, rest)) : StrOk bs := by
  unfold Spec.str at h
  cases hf : (ws.flatMap Spec.wordBytes).findIdx? (· == 0) with
  | none => rw [hf] at h; cases h
  | some nul =>
    rw [hf] at h
    dsimp only at h
    split at h
    · rename_i hutf
      cases h
      obtain ⟨hnl, _, hmin⟩ := List.findIdx?_eq_some_iff_getElem.1 hf
      refine ⟨fun b hb => flatMap_wordBytes_lt ws b (List.mem_of_mem_take hb), ?_, hutf⟩
      intro b hb
      obtain ⟨j, hj, rfl⟩ := List.mem_iff_getElem.1 hb
      rw [List.length_take] at hj
      have hj' : j < nul := by omega
      rw [List.getElem_take]
      have := hmin j hj'
      simpa using this
    · cases h

theorem elem_conv (G : Tables) (hex : EnumsExact G) (e : Elem) (ws : List Nat) (o : Operand) (rest : List Nat)
    (h : Spec.elem G e ws = some (o, rest)) : ElemT G e o := by
  unfold Spec.elem at h
  split at h
  · rename_i h0
    cases ws with
    | nil => cases h
    | cons w t =>
      dsimp only at h
      cases hE : G.enums[e.ix]? with
      | none => rw [hE] at h; cases h
      | some E =>
        rw [hE] at h
        dsimp only at h
        cases hf : E.fromU32 w with
        | none => rw [hf] at h; cases h
        | some v =>
          rw [hf] at h
          cases h
          have hv : v = w := (EnumSpec.fromU32_exact E (hex E (List.mem_of_getElem? hE)) w).2 v hf
          subst hv
          refine ⟨rfl, ?_⟩
          simp only [h0, if_true]
          exact ⟨E, hE, hf⟩
  · rename_i h0
    split at h
    · rename_i h1
      cases ws with
      | nil => cases h
      | cons w t =>
        dsimp only at h
        cases hM : G.masks[e.ix]? with
        | none => rw [hM] at h; cases h
        | some M =>
          rw [hM] at h
          dsimp only at h
          cases hf : M.fromBits w with
          | none => rw [hf] at h; cases h
          | some v =>
            rw [hf] at h
            cases h
            have hv : v = w := by
              unfold MaskSpec.fromBits at hf
              split at hf
              · cases hf; rfl
              · cases hf
            subst hv
            refine ⟨rfl, ?_⟩
            simp only [h0, Bool.false_eq_true, if_false, h1, if_true]
            exact ⟨M, hM, hf⟩
    · rename_i h1
      split at h
      · rename_i h2
        cases ws with
        | nil => cases h
        | cons w t =>
          cases h
          refine ⟨rfl, ?_⟩
          simp only [h0, h1, Bool.false_eq_true, if_false, h2]
      · rename_i h2
        cases hs : Spec.str ws with
        | none => rw [hs] at h; cases h
        | some p =>
          obtain ⟨bs, rest'⟩ := p
          rw [hs] at h
          cases h
          exact ⟨by simpa using h0, by simpa using h1, by simpa using h2, str_conv ws bs rest hs⟩

theorem elems_conv (G : Tables) (hex : EnumsExact G) : ∀ (es : List Elem) (ws : List Nat) (os : List Operand) (rest : List Nat),
    Spec.elems G es ws = some (os, rest) → ElemsT G es os
  | [], ws, os, rest, h => by simp only [Spec.elems] at h; cases h; exact ElemsT.nil
  | e :: es, ws, os, rest, h => by
    unfold Spec.elems at h
    cases h1 : Spec.elem G e ws with
    | none => rw [h1] at h; cases h
    | some p =>
      obtain ⟨o, t⟩ := p
      rw [h1] at h
      dsimp only at h
      cases h2 : Spec.elems G es t with
      | none => rw [h2] at h; cases h
      | some q =>
        obtain ⟨os', t'⟩ := q
        rw [h2] at h
        cases h
        exact ElemsT.cons (elem_conv G hex e ws o t h1) (elems_conv G hex es t os' rest h2)

theorem operand_conv (G : Tables) (hex : EnumsExact G) (k : Nat) (ws : List Nat) (os : List Operand) (rest : List Nat)
    (h : Spec.operand G k ws = some (os, rest)) : OperandT G k os := by
  unfold Spec.operand at h
  unfold OperandT
  cases ha : G.kindActs[k]? with
  | none => rw [ha] at h; cases h
  | some act =>
    rw [ha] at h
    cases act with
    | panics => cases h
    | elems es => exact elems_conv G hex es ws os rest h
    | maskParams e rows =>
      dsimp only at h ⊢
      cases h1 : Spec.elem G e ws with
      | none => rw [h1] at h; cases h
      | some p =>
        obtain ⟨v, t⟩ := p
        rw [h1] at h
        dsimp only at h
        cases h2 : Spec.elems G (maskSel rows v.num) t with
        | none => rw [h2] at h; cases h
        | some q =>
          obtain ⟨os', t'⟩ := q
          rw [h2] at h
          cases h
          exact ⟨v, os', rfl, elem_conv G hex e ws v t h1, elems_conv G hex _ t os' rest h2⟩
    | enumParams e rows =>
      dsimp only at h ⊢
      cases h1 : Spec.elem G e ws with
      | none => rw [h1] at h; cases h
      | some p =>
        obtain ⟨v, t⟩ := p
        rw [h1] at h
        dsimp only at h
        cases h2 : Spec.elems G (enumSel rows v.num) t with
        | none => rw [h2] at h; cases h
        | some q =>
          obtain ⟨os', t'⟩ := q
          rw [h2] at h
          cases h
          exact ⟨v, os', rfl, elem_conv G hex e ws v t h1, elems_conv G hex _ t os' rest h2⟩

theorem lit1_conv (G : Tables) (ws : List Nat) (o : Operand) (rest : List Nat) (h : Spec.lit1 G ws = some (o, rest)) :
    Lit1T G o := by
  unfold Spec.lit1 at h
  cases ws with
  | nil => cases h
  | cons w t => cases h; exact ⟨w, rfl⟩

theorem lit2_conv (ws : List Nat) (o : Operand) (rest : List Nat) (h : Spec.lit2 ws = some (o, rest)) : Lit2T o := by
  unfold Spec.lit2 at h
  match ws, h with
  | lo :: hi :: t, h =>
    cases h
    refine ⟨_, rfl, ?_⟩
    have h1 : hi % 4294967296 < 4294967296 := Nat.mod_lt _ (by decide)
    have h2 : lo % 4294967296 < 4294967296 := Nat.mod_lt _ (by decide)
    omega

theorem literal_conv (G : Tables) (τ : Tracker) (ty : Nat) (ws : List Nat) (o : Operand) (rest : List Nat)
    (h : Spec.literal G τ ty ws = some (o, rest)) : LiteralT G τ ty o := by
  unfold Spec.literal at h
  unfold LiteralT
  cases hr : τ.resolve ty with
  | none => rw [hr] at h; exact lit1_conv G ws o rest h
  | some t =>
    rw [hr] at h
    cases t with
    | int w s =>
      dsimp only at h ⊢
      split at h
      · rename_i hw; rw [if_pos hw]; exact lit1_conv G ws o rest h
      · rename_i hw
        rw [if_neg hw]
        split at h
        · rename_i hw2; rw [if_pos hw2]; exact lit2_conv ws o rest h
        · cases h
    | float w =>
      dsimp only at h ⊢
      split at h
      · rename_i hw; rw [if_pos hw]; exact lit1_conv G ws o rest h
      · rename_i hw
        rw [if_neg hw]
        split at h
        · rename_i hw2; rw [if_pos hw2]; exact lit2_conv ws o rest h
        · cases h

theorem many_conv (G : Tables) (hex : EnumsExact G) (k : Nat) : ∀ (fuel : Nat) (ws : List Nat) (os : List Operand),
    Spec.many G k fuel ws = some os → ManyT G k os
  | 0, _, _, h => by simp only [Spec.many] at h; cases h
  | fuel + 1, ws, os, h => by
    unfold Spec.many at h
    split at h
    · cases h; exact ManyT.nil
    · cases h1 : Spec.operand G k ws with
      | none => rw [h1] at h; cases h
      | some p =>
        obtain ⟨g, t⟩ := p
        rw [h1] at h
        dsimp only at h
        cases h2 : Spec.many G k fuel t with
        | none => rw [h2] at h; cases h
        | some more =>
          rw [h2] at h
          cases h
          exact ManyT.cons (operand_conv G hex k ws g t h1) (many_conv G hex k fuel t more h2)

theorem nested_conv (G : Tables) (hex : EnumsExact G) : ∀ (ops : List (Nat × Nat)) (ws : List Nat) (os : List Operand)
    (rest : List Nat), nestedOk G ops = true → Spec.nested G ops ws = some (os, rest) → NestedT G ops os
  | [], ws, os, rest, _, h => by simp only [Spec.nested] at h; cases h; exact NestedT.nil
  | (k, q) :: ops, ws, os, rest, hok, h => by
    have hok' := hok
    simp only [nestedOk, List.all_cons, Bool.and_eq_true] at hok
    unfold Spec.nested at h
    split at h
    · rename_i hres
      exact NestedT.res hres (nested_conv G hex ops ws os rest hok.2 h)
    · rename_i hres
      have hres' : (k == G.kIdResultType || k == G.kIdResult) = false := by simpa using hres
      dsimp only at h
      by_cases hq0 : (q == 0) = true
      · simp only [hq0, if_true] at h
        cases h1 : Spec.operand G k ws with
        | none => rw [h1] at h; cases h
        | some p =>
          obtain ⟨g, t⟩ := p
          rw [h1] at h
          dsimp only at h
          cases h2 : Spec.nested G ops t with
          | none => rw [h2] at h; cases h
          | some r =>
            obtain ⟨more, t'⟩ := r
            rw [h2] at h
            cases h
            exact NestedT.one hres' hq0 (operand_conv G hex k ws g t h1) (nested_conv G hex ops t more rest hok.2 h2)
      · have hq0' : (q == 0) = false := by simpa using hq0
        simp only [hq0', Bool.false_eq_true, if_false] at h
        by_cases hq1 : (q == 1) = true
        · simp only [hq1, if_true] at h
          by_cases hemp : ws.isEmpty = true
          · simp only [hemp, if_true] at h
            cases h2 : Spec.nested G ops ws with
            | none => rw [h2] at h; cases h
            | some r =>
              obtain ⟨more, t'⟩ := r
              rw [h2] at h
              cases h
              have hws : ws = [] := by simpa using hemp
              subst hws
              obtain ⟨hm, _⟩ := nested_nil G ops more rest hok.2 h2
              subst hm
              exact NestedT.optNone hres' hq0' hq1 (nested_conv G hex ops [] [] rest hok.2 h2)
          · simp only [hemp, Bool.false_eq_true, if_false] at h
            cases h1 : Spec.operand G k ws with
            | none => rw [h1] at h; cases h
            | some p =>
              obtain ⟨g, t⟩ := p
              rw [h1] at h
              dsimp only at h
              cases h2 : Spec.nested G ops t with
              | none => rw [h2] at h; cases h
              | some r =>
                obtain ⟨more, t'⟩ := r
                rw [h2] at h
                cases h
                exact NestedT.optSome hres' hq0' hq1 (operand_conv G hex k ws g t h1)
                  (nested_conv G hex ops t more rest hok.2 h2)
        · have hq1' : (q == 1) = false := by simpa using hq1
          simp only [hq1', Bool.false_eq_true, if_false] at h
          cases h1 : Spec.many G k (ws.length + 1) ws with
          | none => rw [h1] at h; cases h
          | some g =>
            rw [h1] at h
            dsimp only at h
            cases h2 : Spec.nested G ops [] with
            | none => rw [h2] at h; cases h
            | some r =>
              obtain ⟨more, t'⟩ := r
              rw [h2] at h
              cases h
              obtain ⟨hm, _⟩ := nested_nil G ops more rest hok.2 h2
              subst hm
              rw [List.append_nil]
              exact NestedT.many hres' hq0' hq1' (many_conv G hex k _ ws g h1) (nested_conv G hex ops [] [] rest hok.2 h2)

theorem specOp_conv (G : Tables) (hc : coreKindsOk G = true) (hex : EnumsExact G) (ws : List Nat) (os : List Operand)
    (rest : List Nat) (h : Spec.specOp G ws = some (os, rest)) : SpecOpT G os := by
  unfold Spec.specOp at h
  cases ws with
  | nil => cases h
  | cons number t =>
    dsimp only at h
    generalize hg : Option.filter (fun e => !(e.ops.any (fun o => isCtxKind G o.1)))
      (if number ≤ 65535 then lookupOpcode G.core number else none) = g at h
    cases g with
    | none => cases h
    | some e =>
      dsimp only at h
      have hfil := Option.filter_eq_some_iff.1 hg
      obtain ⟨hlk, hctx⟩ := hfil
      have h16 : number ≤ 65535 := by
        by_cases hn : number ≤ 65535
        · exact hn
        · rw [if_neg hn] at hlk; cases hlk
      rw [if_pos h16] at hlk
      obtain ⟨hmem, hop⟩ := lookupOpcode_some _ _ _ hlk
      have hctx' : (e.ops.any (fun o => isCtxKind G o.1)) = false := by simpa using hctx
      have hok : nestedOk G e.ops = true := by
        simp only [coreKindsOk, List.all_eq_true] at hc
        simp only [nestedOk, List.all_eq_true]
        intro o ho
        have h1 := hc e hmem o ho
        have h2 : isCtxKind G o.1 = false := by
          have := hctx'
          simp only [List.any_eq_false] at this
          simpa using this o ho
        simpa [h2] using h1
      cases h2 : Spec.nested G e.ops t with
      | none => rw [h2] at h; cases h
      | some r =>
        obtain ⟨more, t'⟩ := r
        rw [h2] at h
        cases h
        exact ⟨e, more, rfl, by rw [hop]; exact h16, by rw [hop]; exact hlk, hctx', nested_conv G hex e.ops t more rest hok h2⟩

theorem one_conv (G : Tables) (hc : coreKindsOk G = true) (hex : EnumsExact G) (τ : Tracker) (opcode k : Nat) (a a1 : Acc)
    (ws t : List Nat) (h : Spec.one G τ opcode k a ws = some (a1, t))
    (hres : (k == G.kIdResultType) = false ∧ (k == G.kIdResult) = false) :
    ∃ g, a1 = { a with ops := a.ops ++ g } ∧ OneT G τ opcode a.rtype a.ops k g := by
  unfold Spec.one at h
  simp only [hres.1, hres.2, Bool.false_eq_true, if_false] at h
  unfold OneT
  by_cases h1 : (k == G.kCtxNumber) = true
  · simp only [h1, if_true] at h ⊢
    split at h
    · cases h
    · rename_i hop
      cases hrt : a.rtype with
      | none => rw [hrt] at h; cases h
      | some ty =>
        rw [hrt] at h
        dsimp only at h
        cases hl : Spec.literal G τ ty ws with
        | none => rw [hl] at h; cases h
        | some p =>
          obtain ⟨o, t'⟩ := p
          rw [hl] at h
          cases h
          have hop' : (opcode == G.opConstant || opcode == G.opSpecConstant) = true := by
            cases hx : (opcode == G.opConstant || opcode == G.opSpecConstant) with
            | true => rfl
            | false => rw [hx] at hop; simp at hop
          exact ⟨[o], rfl, hop', ty, o, rfl, rfl, literal_conv G τ ty ws o t hl⟩
  · simp only [h1, Bool.false_eq_true, if_false] at h ⊢
    by_cases h2 : (k == G.kPairLitId) = true
    · simp only [h2, if_true] at h ⊢
      split at h
      · cases h
      · rename_i hop
        cases hops : a.ops with
        | nil => rw [hops] at h; cases h
        | cons o0 tl =>
          rw [hops] at h
          cases o0 with
          | q _ => cases h
          | s _ => cases h
          | w v sel =>
            dsimp only at h
            split at h
            · cases h
            · rename_i hv
              have hv' : v = G.vIdRef := by simpa using hv
              subst hv'
              cases hl : Spec.literal G τ sel ws with
              | none => rw [hl] at h; cases h
              | some p =>
                obtain ⟨lit, t'⟩ := p
                rw [hl] at h
                cases t' with
                | nil => cases h
                | cons tgt t'' =>
                  cases h
                  refine ⟨[lit, .w G.vIdRef tgt], rfl, by simpa [bne] using hop, sel, tl, lit, tgt, rfl, rfl,
                    literal_conv G τ sel ws lit _ hl⟩
    · simp only [h2, Bool.false_eq_true, if_false] at h ⊢
      by_cases h3 : (k == G.kSpecOp) = true
      · simp only [h3, if_true] at h ⊢
        cases hs : Spec.specOp G ws with
        | none => rw [hs] at h; cases h
        | some p =>
          obtain ⟨os, t'⟩ := p
          rw [hs] at h
          cases h
          exact ⟨os, rfl, specOp_conv G hc hex ws os t hs⟩
      · simp only [h3, Bool.false_eq_true, if_false] at h ⊢
        cases hs : Spec.operand G k ws with
        | none => rw [hs] at h; cases h
        | some p =>
          obtain ⟨os, t'⟩ := p
          rw [hs] at h
          cases h
          exact ⟨os, rfl, operand_conv G hex k ws os t hs⟩

theorem loop_conv (G : Tables) (hc : coreKindsOk G = true) (hex : EnumsExact G) (τ : Tracker) (opcode : Nat) :
    ∀ (fuel : Nat) (ops : List (Nat × Nat)) (a a' : Acc) (ws : List Nat),
    Spec.loop G τ opcode fuel ops a ws = some (a', []) → NoRes G ops →
    ∃ os, a' = { a with ops := a.ops ++ os } ∧ LoopT G τ opcode a.rtype ops a.ops os
  | 0, _, _, _, _, h, _ => by simp only [Spec.loop] at h; cases h
  | fuel + 1, [], a, a', ws, h, _ => by
    simp only [Spec.loop] at h
    cases h
    exact ⟨[], by cases a; simp, LoopT.nil⟩
  | fuel + 1, (k, q) :: rest, a, a', ws, h, hnr => by
    unfold Spec.loop at h
    have hres := hnr (k, q) (by simp)
    split at h
    · cases h1 : Spec.one G τ opcode k a ws with
      | none => rw [h1] at h; cases h
      | some p =>
        obtain ⟨a1, t⟩ := p
        rw [h1] at h
        dsimp only at h
        obtain ⟨g, ha1, hone⟩ := one_conv G hc hex τ opcode k a a1 ws t h1 hres
        have hrt : a1.rtype = a.rtype := by rw [ha1]
        have hops : a1.ops = a.ops ++ g := by rw [ha1]
        split at h
        · rename_i hq
          obtain ⟨os, ha', hl⟩ := loop_conv G hc hex τ opcode fuel ((k, q) :: rest) a1 a' t h hnr
          rw [hrt, hops] at hl
          refine ⟨g ++ os, ?_, LoopT.rep hq hone hl⟩
          rw [ha', ha1]; simp [List.append_assoc]
        · rename_i hq
          obtain ⟨os, ha', hl⟩ := loop_conv G hc hex τ opcode fuel rest a1 a' t h
            (fun o ho => hnr o (List.mem_cons_of_mem _ ho))
          rw [hrt, hops] at hl
          refine ⟨g ++ os, ?_, LoopT.step (by simpa using hq) hone hl⟩
          rw [ha', ha1]; simp [List.append_assoc]
    · split at h
      · cases h
      · rename_i hq
        cases h
        exact ⟨[], by cases a; simp, LoopT.stop (by simpa using hq)⟩

/-- the result kinds in front, then `loop_conv` -/
theorem lead_conv (G : Tables) (hc : coreKindsOk G = true) (hex : EnumsExact G)
    (hne : (G.kIdResult == G.kIdResultType) = false) (τ : Tracker) (opcode : Nat) (ops : List (Nat × Nat)) (a : Acc)
    (ws : List Nat) (hlead : LeadOk G ops ⟨none, none, []⟩) :
    ∀ fuel, Spec.loop G τ opcode fuel ops ⟨none, none, []⟩ ws = some (a, []) →
      a.rtype.isSome = ops.any (fun o => o.1 == G.kIdResultType) ∧
      a.rid.isSome = ops.any (fun o => o.1 == G.kIdResult) ∧
      LoopT G τ opcode a.rtype (ops.filter (fun o => !isRes G o.1)) [] a.ops := by
  have hne' : ∀ k, (k == G.kIdResultType) = true → (k == G.kIdResult) = false := by
    intro k hk
    have := eq_of_beq hk
    subst this
    cases hx : (G.kIdResultType == G.kIdResult) with
    | false => rfl
    | true => have := eq_of_beq hx; rw [← this] at hne; simp at hne
  -- the tail without result kinds
  have tail : ∀ (ops' : List (Nat × Nat)) (a0 : Acc) (ws' : List Nat) (fuel : Nat), NoRes G ops' → a0.ops = [] →
      Spec.loop G τ opcode fuel ops' a0 ws' = some (a, []) →
      a.rtype = a0.rtype ∧ a.rid = a0.rid ∧ LoopT G τ opcode a0.rtype ops' [] a.ops := by
    intro ops' a0 ws' fuel hnr h0 hl
    obtain ⟨os, ha, hlt⟩ := loop_conv G hc hex τ opcode fuel ops' a0 a ws' hl hnr
    rw [h0] at hlt ha
    rw [ha]
    exact ⟨rfl, rfl, by simpa using hlt⟩
  intro fuel h
  cases ops with
  | nil =>
    obtain ⟨r1, r2, r3⟩ := tail [] ⟨none, none, []⟩ ws fuel (by intro o ho; cases ho) rfl h
    simp only [List.any_nil, List.filter_nil]
    rw [r1, r2]
    exact ⟨rfl, rfl, r3⟩
  | cons o t =>
    obtain ⟨k, q⟩ := o
    cases fuel with
    | zero => simp only [Spec.loop] at h; cases h
    | succ f =>
      by_cases hk1 : (k == G.kIdResultType) = true
      · have hk1' := hne' k hk1
        simp only [LeadOk, hk1, if_true] at hlead
        obtain ⟨hq, _, _, _, hrest⟩ := hlead
        unfold Spec.loop at h
        split at h
        · simp only [Spec.one, hk1, if_true] at h
          cases ws with
          | nil => cases h
          | cons w ws' =>
            dsimp only at h
            have hq2 : (q == 2) = false := by subst hq; rfl
            simp only [hq2, Bool.false_eq_true, if_false] at h
            cases t with
            | nil =>
              obtain ⟨r1, r2, r3⟩ := tail [] ⟨some w, none, []⟩ ws' f (by intro o ho; cases ho) rfl h
              have hfil : ([(k, q)] : List (Nat × Nat)).filter (fun o => !isRes G o.1) = [] := by simp [isRes, hk1]
              rw [hfil, r1, r2]
              simp only [List.any_cons, hk1, hk1', List.any_nil, Bool.or_false]
              exact ⟨rfl, rfl, r3⟩
            | cons o2 t2 =>
              obtain ⟨k2, q2⟩ := o2
              dsimp only at hrest
              by_cases hk22 : (k2 == G.kIdResult) = true
              · simp only [hk22, if_true] at hrest
                obtain ⟨hq2', hnr⟩ := hrest
                have hk21 : (k2 == G.kIdResultType) = false := by
                  cases hx : (k2 == G.kIdResultType) with
                  | false => rfl
                  | true => have := hne' k2 hx; rw [hk22] at this; cases this
                cases f with
                | zero => simp only [Spec.loop] at h; cases h
                | succ f2 =>
                  unfold Spec.loop at h
                  split at h
                  · simp only [Spec.one, hk21, hk22, Bool.false_eq_true, if_false, if_true] at h
                    cases ws' with
                    | nil => cases h
                    | cons w2 ws'' =>
                      dsimp only at h
                      have hq22 : (q2 == 2) = false := by subst hq2'; rfl
                      simp only [hq22, Bool.false_eq_true, if_false] at h
                      obtain ⟨r1, r2, r3⟩ := tail t2 ⟨some w, some w2, []⟩ ws'' f2 hnr rfl h
                      have hany := noRes_any G t2 hnr
                      have hfil : ((k, q) :: (k2, q2) :: t2).filter (fun o => !isRes G o.1) = t2 := by
                        simp only [List.filter_cons, isRes, hk1, hk22, Bool.true_or, Bool.or_true, Bool.not_true,
                          Bool.false_eq_true, if_false]
                        exact noRes_filter G t2 hnr
                      rw [hfil, r1, r2]
                      simp only [List.any_cons, hk1, hk22, Bool.true_or, Bool.or_true]
                      exact ⟨rfl, rfl, r3⟩
                  · subst hq2'
                    simp at h
              · simp only [hk22, Bool.false_eq_true, if_false] at hrest
                obtain ⟨r1, r2, r3⟩ := tail ((k2, q2) :: t2) ⟨some w, none, []⟩ ws' f hrest rfl h
                have hany := noRes_any G _ hrest
                have hfil : ((k, q) :: (k2, q2) :: t2).filter (fun o => !isRes G o.1) = (k2, q2) :: t2 := by
                  rw [List.filter_cons]
                  simp only [isRes, hk1, Bool.true_or, Bool.not_true, Bool.false_eq_true, if_false]
                  exact noRes_filter G _ hrest
                rw [hfil, r1, r2]
                rw [List.any_cons, List.any_cons (a := (k, q))]
                simp only [hk1, hk1', Bool.true_or, Bool.false_or, hany.2]
                exact ⟨rfl, rfl, r3⟩
        · subst hq
          simp at h
      · by_cases hk2 : (k == G.kIdResult) = true
        · simp only [LeadOk, hk1, hk2, Bool.false_eq_true, if_false, if_true] at hlead
          obtain ⟨hq, _, _, hnr⟩ := hlead
          unfold Spec.loop at h
          split at h
          · simp only [Spec.one, hk1, hk2, Bool.false_eq_true, if_false, if_true] at h
            cases ws with
            | nil => cases h
            | cons w ws' =>
              dsimp only at h
              have hq2 : (q == 2) = false := by subst hq; rfl
              simp only [hq2, Bool.false_eq_true, if_false] at h
              obtain ⟨r1, r2, r3⟩ := tail t ⟨none, some w, []⟩ ws' f hnr rfl h
              have hany := noRes_any G t hnr
              have hfil : ((k, q) :: t).filter (fun o => !isRes G o.1) = t := by
                rw [List.filter_cons]
                simp only [isRes, hk2, Bool.or_true, Bool.not_true, Bool.false_eq_true, if_false]
                exact noRes_filter G _ hnr
              rw [hfil, r1, r2]
              simp only [List.any_cons, hk1, hk2, Bool.false_or, Bool.true_or, hany.1]
              exact ⟨rfl, rfl, r3⟩
          · subst hq
            simp at h
        · simp only [LeadOk, hk1, hk2, Bool.false_eq_true, if_false] at hlead
          obtain ⟨r1, r2, r3⟩ := tail ((k, q) :: t) ⟨none, none, []⟩ ws (f + 1) hlead rfl h
          have hany := noRes_any G _ hlead
          rw [noRes_filter G _ hlead, r1, r2, hany.1, hany.2]
          exact ⟨rfl, rfl, r3⟩

/-- **the typing judgement is complete for the recogniser**: every instruction it delivers from 32-bit words conforms -/
theorem spec_typed (G : Tables) (good : GoodTables G) (τ : Tracker) (ws : List Nat) (i : Inst) (rest : List Nat)
    (h : Spec.inst G τ ws = some (i, rest)) (hw : WordsOk ws) : InstT G τ i := by
  have hlen := Rspirv.Props.C01Layout.asm_len G good τ ws i rest h hw
  unfold Spec.inst at h
  cases ws with
  | nil => cases h
  | cons w0 t =>
    dsimp only at h
    split at h
    · cases h
    · cases hlook : lookupOpcode G.core (w0 % 65536) with
      | none => rw [hlook] at h; cases h
      | some e =>
        rw [hlook] at h
        dsimp only at h
        split at h
        · cases h
        · cases hl : Spec.loop G τ e.opcode (w0 / 65536 + e.ops.length + 1) e.ops ⟨none, none, []⟩ (t.take (w0 / 65536 - 1)) with
          | none => rw [hl] at h; cases h
          | some p =>
            obtain ⟨a, r0⟩ := p
            rw [hl] at h
            cases r0 with
            | cons _ _ => cases h
            | nil =>
              cases h
              obtain ⟨hmem, hop⟩ := lookupOpcode_some _ _ _ hlook
              obtain ⟨r1, r2, r3⟩ := lead_conv G good.kinds good.enums good.distinct τ e.opcode e.ops a _
                (leadOk_of_resultsLead G e.ops (good.lead e hmem)) _ hl
              exact ⟨e, by rw [hop]; exact hlook, r1, r2, r3, hlen⟩

/-- **`InstT` is exactly "instruction of the grammar".** -/
theorem typed_iff (G : Tables) (tt : TypedTables G) (τ : Tracker) (i : Inst)
    (hw : WordsOk (assembleInst i)) :
    InstT G τ i ↔ (∃ rest, Spec.inst G τ (assembleInst i ++ rest) = some (i, rest)) ∧ (assembleInst i).length < 65536 := by
  constructor
  · intro h
    exact ⟨⟨[], typed_spec G tt τ i h []⟩, h.choose_spec.2.2.2.2⟩
  · rintro ⟨⟨rest, h⟩, _⟩
    have h0 : Spec.inst G τ (assembleInst i ++ []) = some (i, []) := by
      have hl : (assembleInst i).length < 65536 := by assumption
      exact C02_spec G tt.good τ _ i rest h hl []
    exact spec_typed G tt.good τ _ i [] h0 (by simpa using hw)

end Rspirv.Props.C02TypedConv
