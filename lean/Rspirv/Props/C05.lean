import Rspirv.Model.Loader
/-!
# C05 — the loader accepts exactly well-bracketed function/block structure

`A` is the specification: a three-state bracket automaton over instruction classes, short enough to read.
The loader model (`Rspirv.Model.LState.step`, tied to `dr/loader.rs` by the `load` channel) is proved to refine
it step by step — same acceptance, same error at the same instruction — for every instruction sequence and every
table set. Shape and section theorems follow by invariants over all histories.
-/
namespace Rspirv.Props.C05
open Rspirv Rspirv.Model

/-! ### the specification automaton -/

inductive AState where
  | top | inFn | inBlock
deriving Repr, DecidableEq

/-- one instruction of class `c` (opcode `op`, only used as the payload of the detached-instruction error) -/
def A.step : AState → Cls → Nat → Except LErr AState
  -- module-level classes and OpLine/OpNoLine are accepted in every state and never change it
  | s, .sect _, _ => .ok s
  | s, .line, _ => .ok s
  -- variables and undefs: module-level when no function is open, block instructions inside a block
  | .top, .varOp, _ => .ok .top
  | .top, .undefOp, _ => .ok .top
  | .inFn, .varOp, op => .error (.detachedInstruction op)
  | .inFn, .undefOp, op => .error (.detachedInstruction op)
  | .inBlock, .varOp, _ => .ok .inBlock
  | .inBlock, .undefOp, _ => .ok .inBlock
  -- functions are never nested
  | .top, .fn, _ => .ok .inFn
  | _, .fn, _ => .error .nestedFunction
  -- a function end needs an open function and no open block
  | .top, .fnEnd, _ => .error .mismatchedFunctionEnd
  | .inFn, .fnEnd, _ => .ok .top
  | .inBlock, .fnEnd, _ => .error .unclosedBlock
  -- parameters only inside a function
  | .top, .param, _ => .error .detachedFunctionParameter
  | s, .param, _ => .ok s
  -- labels only inside a function and never inside an open block
  | .top, .label, _ => .error .detachedBlock
  | .inFn, .label, _ => .ok .inBlock
  | .inBlock, .label, _ => .error .nestedBlock
  -- a terminator closes the open block
  | .inBlock, .term, _ => .ok .inFn
  | _, .term, _ => .error .mismatchedTerminator
  -- every other instruction sits inside an open block
  | .inBlock, .other, _ => .ok .inBlock
  | _, .other, op => .error (.detachedInstruction op)

def A.run (L : LTables) : AState → List Inst → Except LErr AState
  | s, [] => .ok s
  | s, i :: is => match A.step s (classify L i.opcode) i.opcode with
    | .ok s' => A.run L s' is
    | .error e => .error e

/-- at the end: no open block, no open function -/
def A.finalize : AState → Except LErr Unit
  | .top => .ok ()
  | .inFn => .error .unclosedFunction
  | .inBlock => .error .unclosedBlock

/-! ### refinement -/

def abs (s : LState) : AState :=
  match s.function, s.block with
  | none, _ => .top
  | some _, none => .inFn
  | some _, some _ => .inBlock

/-- an open block implies an open function (what makes the loader's `unwrap()`s safe) -/
def Inv (s : LState) : Prop := s.block.isSome → s.function.isSome

theorem inv_init (m : Module Inst) : Inv ⟨m, none, none⟩ := by intro h; cases h

theorem step_refines (L : LTables) (s : LState) (i : Inst) (hi : Inv s) :
    (match s.step L i with
     | .ok s' => A.step (abs s) (classify L i.opcode) i.opcode = .ok (abs s') ∧ Inv s'
     | .error e => A.step (abs s) (classify L i.opcode) i.opcode = .error e) := by
  unfold Inv at hi
  obtain ⟨m, f, b⟩ := s
  unfold LState.step
  cases hc : classify L i.opcode <;> cases f <;> cases b <;>
    simp_all [abs, A.step, Inv, pushBlock]

theorem run_refines (L : LTables) : ∀ (is : List Inst) (s : LState), Inv s →
    (match LState.run L s is with
     | .ok s' => A.run L (abs s) is = .ok (abs s') ∧ Inv s'
     | .error e => A.run L (abs s) is = .error e)
  | [], s, hi => by simp [LState.run, A.run, hi]
  | i :: is, s, hi => by
    have h1 := step_refines L s i hi
    unfold LState.run A.run
    cases hs : s.step L i with
    | ok s' =>
      rw [hs] at h1
      simp only at h1 ⊢
      rw [h1.1]
      exact run_refines L is s' h1.2
    | error e =>
      rw [hs] at h1
      simp only at h1 ⊢
      rw [h1]

theorem finalize_refines (s : LState) (hi : Inv s) :
    (match s.finalize with
     | .ok _ => A.finalize (abs s) = .ok ()
     | .error e => A.finalize (abs s) = .error e) := by
  unfold Inv at hi
  obtain ⟨m, f, b⟩ := s
  cases f <;> cases b <;> simp_all [LState.finalize, abs, A.finalize]

/-- the specification's verdict on a whole instruction sequence -/
def A.verdict (L : LTables) (is : List Inst) : Except LErr Unit :=
  match A.run L .top is with
  | .ok s => A.finalize s
  | .error e => .error e

/-- **C05 (acceptance and errors).** For every instruction sequence the loader succeeds iff the bracket automaton
accepts, and otherwise returns exactly the automaton's error (the one matching the first offending instruction, or
the unclosed-block / unclosed-function error at the end). -/
theorem C05_accept (L : LTables) (h : Header) (is : List Inst) :
    (match load L h is with
     | .ok _ => A.verdict L is = .ok ()
     | .error e => A.verdict L is = .error e) := by
  unfold load A.verdict
  have hr := run_refines L is (LState.start h) (inv_init _)
  have habs : abs (LState.start h) = .top := rfl
  rw [habs] at hr
  cases hrun : LState.run L (LState.start h) is with
  | ok s =>
    rw [hrun] at hr
    simp only at hr ⊢
    rw [hr.1]
    exact finalize_refines s hr.2
  | error e =>
    rw [hrun] at hr
    simp only at hr ⊢
    rw [hr]

/-! ### shape of the loaded module -/

def isTerm (L : LTables) (i : Inst) : Prop := classify L i.opcode = .term

/-- a finished block: labelled, ends with a terminator that occurs nowhere else in it -/
def BlockDone (L : LTables) (b : Block Inst) : Prop :=
  b.label.isSome ∧ ∃ init t, b.insts = init ++ [t] ∧ isTerm L t ∧ ∀ x ∈ init, ¬ isTerm L x

def FnDone (L : LTables) (f : Function Inst) : Prop :=
  f.def_.isSome ∧ f.end_.isSome ∧ ∀ b ∈ f.blocks, BlockDone L b

structure ShapeInv (L : LTables) (s : LState) : Prop where
  done : ∀ f ∈ s.module.functions, FnDone L f
  cur : ∀ f, s.function = some f → f.def_.isSome ∧ ∀ b ∈ f.blocks, BlockDone L b
  blk : ∀ b, s.block = some b → b.label.isSome ∧ ∀ x ∈ b.insts, ¬ isTerm L x

theorem push_functions (m : Module Inst) (k : Nat) (i : Inst) : (m.push k i).functions = m.functions := by
  unfold Module.push; split <;> rfl

theorem step_shape (L : LTables) (s s' : LState) (i : Inst) (hinv : Inv s) (hs : ShapeInv L s)
    (h : s.step L i = .ok s') : ShapeInv L s' := by
  obtain ⟨hdone, hcur, hblk⟩ := hs
  unfold Inv at hinv
  obtain ⟨m, f, b⟩ := s
  unfold LState.step at h
  cases hc : classify L i.opcode with
  | sect k =>
    simp only [hc] at h; cases h
    exact ⟨by simpa [push_functions] using hdone, hcur, hblk⟩
  | line =>
    simp only [hc] at h
    cases b with
    | none => simp only at h; cases h; exact ⟨by simpa [push_functions] using hdone, hcur, hblk⟩
    | some bb =>
      simp only at h; cases h
      refine ⟨hdone, hcur, ?_⟩
      intro b' hb'; simp only [pushBlock, Option.some.injEq] at hb'; subst hb'
      obtain ⟨hl, hn⟩ := hblk bb rfl
      refine ⟨hl, ?_⟩
      intro x hx
      rcases List.mem_append.1 hx with hx | hx
      · exact hn x hx
      · simp only [List.mem_singleton] at hx; subst hx; unfold isTerm; rw [hc]; simp
  | varOp =>
    simp only [hc] at h
    cases f with
    | none => simp only [Option.isNone_none, if_true] at h; cases h; exact ⟨by simpa [push_functions] using hdone, hcur, hblk⟩
    | some ff =>
      simp only [Option.isNone_some, Bool.false_eq_true, if_false] at h
      cases b with
      | none => simp only at h; cases h
      | some bb =>
        simp only at h; cases h
        refine ⟨hdone, hcur, ?_⟩
        intro b' hb'; simp only [pushBlock, Option.some.injEq] at hb'; subst hb'
        obtain ⟨hl, hn⟩ := hblk bb rfl
        refine ⟨hl, ?_⟩
        intro x hx
        rcases List.mem_append.1 hx with hx | hx
        · exact hn x hx
        · simp only [List.mem_singleton] at hx; subst hx; unfold isTerm; rw [hc]; simp
  | undefOp =>
    simp only [hc] at h
    cases f with
    | none => simp only [Option.isNone_none, if_true] at h; cases h; exact ⟨by simpa [push_functions] using hdone, hcur, hblk⟩
    | some ff =>
      simp only [Option.isNone_some, Bool.false_eq_true, if_false] at h
      cases b with
      | none => simp only at h; cases h
      | some bb =>
        simp only at h; cases h
        refine ⟨hdone, hcur, ?_⟩
        intro b' hb'; simp only [pushBlock, Option.some.injEq] at hb'; subst hb'
        obtain ⟨hl, hn⟩ := hblk bb rfl
        refine ⟨hl, ?_⟩
        intro x hx
        rcases List.mem_append.1 hx with hx | hx
        · exact hn x hx
        · simp only [List.mem_singleton] at hx; subst hx; unfold isTerm; rw [hc]; simp
  | fn =>
    simp only [hc] at h
    cases f with
    | some ff => simp at h
    | none =>
      simp only [Option.isSome_none, Bool.false_eq_true, if_false] at h; cases h
      refine ⟨hdone, ?_, hblk⟩
      intro f' hf'; simp only [Option.some.injEq] at hf'; subst hf'
      exact ⟨rfl, by intro b hb; cases hb⟩
  | fnEnd =>
    simp only [hc] at h
    cases f with
    | none => simp at h
    | some ff =>
      simp only at h
      cases b with
      | some bb => simp at h
      | none =>
        simp only [Option.isSome_none, Bool.false_eq_true, if_false] at h; cases h
        refine ⟨?_, (by intro f' hf'; cases hf'), hblk⟩
        intro f' hf'
        simp only [List.mem_append, List.mem_singleton] at hf'
        rcases hf' with hf' | rfl
        · exact hdone f' hf'
        · obtain ⟨hd, hb⟩ := hcur ff rfl
          exact ⟨hd, rfl, hb⟩
  | param =>
    simp only [hc] at h
    cases f with
    | none => simp at h
    | some ff =>
      simp only at h; cases h
      refine ⟨hdone, ?_, hblk⟩
      intro f' hf'; simp only [Option.some.injEq] at hf'; subst hf'
      exact hcur ff rfl
  | label =>
    simp only [hc] at h
    cases f with
    | none => simp at h
    | some ff =>
      cases b with
      | some bb => simp at h
      | none =>
        simp only [Option.isNone_some, Bool.false_eq_true, if_false, Option.isSome_none] at h; cases h
        refine ⟨hdone, hcur, ?_⟩
        intro b' hb'; simp only [Option.some.injEq] at hb'; subst hb'
        exact ⟨rfl, by intro x hx; cases hx⟩
  | term =>
    simp only [hc] at h
    cases b with
    | none => simp at h
    | some bb =>
      cases f with
      | none => simp at h
      | some ff =>
        simp only at h; cases h
        refine ⟨hdone, ?_, by intro b' hb'; cases hb'⟩
        intro f' hf'; simp only [Option.some.injEq] at hf'; subst hf'
        obtain ⟨hd, hb⟩ := hcur ff rfl
        refine ⟨hd, ?_⟩
        intro b' hb'
        simp only [List.mem_append, List.mem_singleton] at hb'
        rcases hb' with hb' | rfl
        · exact hb b' hb'
        · obtain ⟨hl, hn⟩ := hblk bb rfl
          exact ⟨hl, bb.insts, i, rfl, hc, hn⟩
  | other =>
    simp only [hc] at h
    cases b with
    | none => simp at h
    | some bb =>
      simp only at h; cases h
      refine ⟨hdone, hcur, ?_⟩
      intro b' hb'; simp only [pushBlock, Option.some.injEq] at hb'; subst hb'
      obtain ⟨hl, hn⟩ := hblk bb rfl
      refine ⟨hl, ?_⟩
      intro x hx
      rcases List.mem_append.1 hx with hx | hx
      · exact hn x hx
      · simp only [List.mem_singleton] at hx; subst hx; unfold isTerm; rw [hc]; simp

theorem step_inv (L : LTables) (s s' : LState) (i : Inst) (hinv : Inv s) (h : s.step L i = .ok s') : Inv s' := by
  have := step_refines L s i hinv
  rw [h] at this
  exact this.2

theorem run_shape (L : LTables) : ∀ (is : List Inst) (s s' : LState), Inv s → ShapeInv L s →
    LState.run L s is = .ok s' → ShapeInv L s' ∧ Inv s'
  | [], s, s', hi, hs, h => by simp only [LState.run, Except.ok.injEq] at h; subst h; exact ⟨hs, hi⟩
  | i :: is, s, s', hi, hs, h => by
    unfold LState.run at h
    cases h1 : s.step L i with
    | error e => rw [h1] at h; cases h
    | ok s1 =>
      rw [h1] at h
      exact run_shape L is s1 s' (step_inv L s s1 i hi h1) (step_shape L s s1 i hi hs h1) h

/-- **C05 (shape).** On success every function owns its defining and its ending instruction, every block owns its
label and ends with a termination instruction that occurs nowhere else in it. -/
theorem C05_shape (L : LTables) (h : Header) (is : List Inst) (m : Module Inst) (hl : load L h is = .ok m) :
    ∀ f ∈ m.functions, FnDone L f := by
  unfold load at hl
  cases hrun : LState.run L (LState.start h) is with
  | error e => rw [hrun] at hl; cases hl
  | ok s =>
    rw [hrun] at hl
    simp only at hl
    have h0 : ShapeInv L (LState.start h) :=
      ⟨by intro f hf; simp [LState.start] at hf, by intro f hf; simp [LState.start] at hf,
       by intro b hb; simp [LState.start] at hb⟩
    obtain ⟨hs, _⟩ := run_shape L is _ s (inv_init _) h0 hrun
    unfold LState.finalize at hl
    by_cases hb : s.block.isSome = true
    · simp [hb] at hl
    · by_cases hf : s.function.isSome = true
      · simp [hb, hf] at hl
      · simp only [hb, hf, Bool.false_eq_true, if_false, Except.ok.injEq] at hl
        subst hl; exact hs.done

/-! ### sections -/

/-- section `k` (one of the opcode-determined ones) after pushing into section `j` -/
theorem sect_push (m : Module Inst) (j k : Nat) (i : Inst) (hk : k ≠ 3) (hk10 : k < 10) :
    (m.push j i).sect k = if j = k then m.sect k ++ [i] else m.sect k := by
  have hks : k = 0 ∨ k = 1 ∨ k = 2 ∨ k = 4 ∨ k = 5 ∨ k = 6 ∨ k = 7 ∨ k = 8 ∨ k = 9 := by omega
  unfold Module.push
  split <;> (rcases hks with rfl | rfl | rfl | rfl | rfl | rfl | rfl | rfl | rfl <;> simp_all [Module.sect])

/-- what a step does to the opcode-determined sections 0,1,2,4..9: appends the instruction iff its class is that
section; every other step leaves them alone -/
theorem step_sect (L : LTables) (s s' : LState) (i : Inst) (k : Nat) (hk : k ≠ 3) (hk10 : k < 10)
    (h : s.step L i = .ok s') :
    s'.module.sect k = s.module.sect k ++ (if classify L i.opcode = .sect k then [i] else []) := by
  obtain ⟨m, f, b⟩ := s
  unfold LState.step at h
  cases hc : classify L i.opcode with
  | sect j =>
    simp only [hc] at h; cases h
    rw [sect_push m j k i hk hk10]
    by_cases e : j = k
    · subst e; simp
    · have : (Cls.sect j = Cls.sect k) = False := by simp [e]
      simp [e]
  | line =>
    simp only [hc] at h
    cases b with
    | none => simp only at h; cases h; rw [sect_push m 10 k i hk hk10]; simp; omega
    | some bb => simp only at h; cases h; simp [pushBlock]
  | varOp =>
    simp only [hc] at h
    cases f with
    | none => simp only [Option.isNone_none, if_true] at h; cases h; rw [sect_push m 10 k i hk hk10]; simp; omega
    | some ff =>
      simp only [Option.isNone_some, Bool.false_eq_true, if_false] at h
      cases b with
      | none => simp only at h; cases h
      | some bb => simp only at h; cases h; simp [pushBlock]
  | undefOp =>
    simp only [hc] at h
    cases f with
    | none => simp only [Option.isNone_none, if_true] at h; cases h; rw [sect_push m 10 k i hk hk10]; simp; omega
    | some ff =>
      simp only [Option.isNone_some, Bool.false_eq_true, if_false] at h
      cases b with
      | none => simp only at h; cases h
      | some bb => simp only at h; cases h; simp [pushBlock]
  | fn =>
    simp only [hc] at h
    cases f with
    | some ff => simp at h
    | none => simp only [Option.isSome_none, Bool.false_eq_true, if_false] at h; cases h; simp
  | fnEnd =>
    simp only [hc] at h
    cases f with
    | none => simp at h
    | some ff =>
      simp only at h
      cases b with
      | some bb => simp at h
      | none =>
        simp only [Option.isSome_none, Bool.false_eq_true, if_false] at h; cases h
        simp [Module.sect]
  | param =>
    simp only [hc] at h
    cases f with
    | none => simp at h
    | some ff => simp only at h; cases h; simp
  | label =>
    simp only [hc] at h
    cases f with
    | none => simp at h
    | some ff =>
      cases b with
      | some bb => simp at h
      | none => simp only [Option.isNone_some, Bool.false_eq_true, if_false, Option.isSome_none] at h; cases h; simp
  | term =>
    simp only [hc] at h
    cases b with
    | none => simp at h
    | some bb =>
      cases f with
      | none => simp at h
      | some ff => simp only at h; cases h; simp
  | other =>
    simp only [hc] at h
    cases b with
    | none => simp at h
    | some bb => simp only at h; cases h; simp [pushBlock]

theorem run_sect (L : LTables) (k : Nat) (hk : k ≠ 3) (hk10 : k < 10) : ∀ (is : List Inst) (s s' : LState),
    LState.run L s is = .ok s' →
    s'.module.sect k = s.module.sect k ++ is.filter (fun i => decide (classify L i.opcode = .sect k))
  | [], s, s', h => by simp only [LState.run, Except.ok.injEq] at h; subst h; simp
  | i :: is, s, s', h => by
    unfold LState.run at h
    cases h1 : s.step L i with
    | error e => rw [h1] at h; cases h
    | ok s1 =>
      rw [h1] at h
      rw [run_sect L k hk hk10 is s1 s' h, step_sect L s s1 i k hk hk10 h1, List.filter_cons]
      by_cases hc : classify L i.opcode = .sect k <;> simp [hc]

/-- **C05 (sections).** On success each of the opcode-determined sections (capabilities, extensions, ext-inst imports,
entry points, execution modes, debug strings/sources, names, module-processed, annotations) holds exactly the
instructions of its class, in input order — none dropped, duplicated or invented. -/
theorem C05_sections (L : LTables) (h : Header) (is : List Inst) (m : Module Inst) (hl : load L h is = .ok m)
    (k : Nat) (hk : k ≠ 3) (hk10 : k < 10) :
    m.sect k = is.filter (fun i => decide (classify L i.opcode = .sect k)) := by
  unfold load at hl
  cases hrun : LState.run L (LState.start h) is with
  | error e => rw [hrun] at hl; cases hl
  | ok s =>
    rw [hrun] at hl
    simp only at hl
    have := run_sect L k hk hk10 is _ s hrun
    unfold LState.finalize at hl
    by_cases hb : s.block.isSome = true
    · simp [hb] at hl
    · by_cases hf : s.function.isSome = true
      · simp [hb, hf] at hl
      · simp only [hb, hf, Bool.false_eq_true, if_false, Except.ok.injEq] at hl
        subst hl
        rw [this]
        have : k = 0 ∨ k = 1 ∨ k = 2 ∨ k = 4 ∨ k = 5 ∨ k = 6 ∨ k = 7 ∨ k = 8 ∨ k = 9 := by omega
        rcases this with rfl | rfl | rfl | rfl | rfl | rfl | rfl | rfl | rfl <;> simp [Module.sect, LState.start]

/-- non-vacuity: the automaton accepts a function with one block and rejects the classic malformed words -/
example : A.step .top .fn 0 = .ok .inFn ∧ A.step .inFn .label 0 = .ok .inBlock ∧ A.step .inBlock .term 0 = .ok .inFn ∧
    A.step .inFn .fnEnd 0 = .ok .top ∧ A.step .inBlock .label 0 = .error .nestedBlock ∧
    A.step .inFn .varOp 59 = .error (.detachedInstruction 59) := ⟨rfl, rfl, rfl, rfl, rfl, rfl⟩

end Rspirv.Props.C05
