import Rspirv.Model.Decoder
/-!
# C11 — the decoder consumes exactly what it returns and honours limits

Statements about the model `Rspirv.Model.DState` (tied to `binary/decoder.rs` by the `dec` channel), for
every buffer and every finite request sequence. `Inv` is the invariant "offset within the buffer"; `Small`
is Rust's guarantee that a slice is at most `isize::MAX` bytes long.
-/
namespace Rspirv.Props.C11
open Rspirv Rspirv.Model Rspirv.Model.DState

def Inv (d : DState) : Prop := d.offset ≤ d.bytes.length
def Small (d : DState) : Prop := d.bytes.length < 2 ^ 63

/-- words still allowed by the limit, as an absolute end offset (`none` = unlimited) -/
def budgetEnd (d : DState) : Option Nat := d.limit.map (fun l => d.offset + 4 * l)

/-! ### raw words -/

/-- **C11 (word).** Exactly three outcomes. Success: the little-endian word at the offset, offset advanced by four
(still inside the buffer), limit charged by one. Failure: offset unchanged and carried by the error. -/
theorem word_spec (d : DState) :
    (d.limit = some 0 ∧ word d = (.err (.limitReached d.offset), d)) ∨
    (d.limit ≠ some 0 ∧ d.offset + 4 ≤ d.bytes.length ∧
      word d = (.ok (le32 d.bytes d.offset), { d with offset := d.offset + 4, limit := d.limit.map (· - 1) })) ∨
    (d.limit ≠ some 0 ∧ ¬ d.offset + 4 ≤ d.bytes.length ∧
      word d = (.err (.streamExpected d.offset), { d with limit := d.limit.map (· - 1) })) := by
  unfold word
  cases hl : d.limit with
  | none =>
    right
    by_cases h : d.offset + 4 ≤ d.bytes.length
    · left; refine ⟨by simp, h, ?_⟩
      have : ¬ (d.offset ≥ d.bytes.length ∨ d.offset + 4 > d.bytes.length) := by omega
      simp [this]
    · right; refine ⟨by simp, h, ?_⟩
      have : (d.offset ≥ d.bytes.length ∨ d.offset + 4 > d.bytes.length) := by omega
      simp [this]
  | some l =>
    cases l with
    | zero => left; exact ⟨rfl, rfl⟩
    | succ l =>
      right
      by_cases h : d.offset + 4 ≤ d.bytes.length
      · left; refine ⟨by simp, h, ?_⟩
        have : ¬ (d.offset ≥ d.bytes.length ∨ d.offset + 4 > d.bytes.length) := by omega
        simp [this]
      · right; refine ⟨by simp, h, ?_⟩
        have : (d.offset ≥ d.bytes.length ∨ d.offset + 4 > d.bytes.length) := by omega
        simp [this]

/-- a failed raw-word request leaves the offset unchanged and reports that offset -/
theorem word_fail_offset (d : DState) (e : DErr) (d' : DState) (h : word d = (.err e, d')) :
    d'.offset = d.offset ∧ (e = .limitReached d.offset ∨ e = .streamExpected d.offset) := by
  rcases word_spec d with ⟨_, hw⟩ | ⟨_, _, hw⟩ | ⟨_, _, hw⟩ <;> rw [hw] at h
  · cases h; exact ⟨rfl, Or.inl rfl⟩
  · cases h
  · cases h; exact ⟨rfl, Or.inr rfl⟩

theorem word_never_panics (d : DState) (s : String) (d' : DState) : word d ≠ (.panic s, d') := by
  rcases word_spec d with ⟨_, hw⟩ | ⟨_, _, hw⟩ | ⟨_, _, hw⟩ <;> rw [hw] <;> simp

/-- one step of the generic "frame" facts every request satisfies: bytes untouched, offset monotone and inside the
buffer, and — under a limit — the budget end never moves forward (so at most `n` words after `set_limit n`) -/
structure Frame (d d' : DState) : Prop where
  bytes : d'.bytes = d.bytes
  mono : d.offset ≤ d'.offset
  inv : Inv d → Inv d'
  limited : ∀ l, d.limit = some l → ∃ l', d'.limit = some l' ∧ d'.offset + 4 * l' ≤ d.offset + 4 * l
  unlimited : d.limit = none → d'.limit = none

theorem Frame.refl (d : DState) : Frame d d :=
  ⟨rfl, Nat.le_refl _, id, fun l h => ⟨l, h, Nat.le_refl _⟩, id⟩

theorem Frame.trans {a b c : DState} (h1 : Frame a b) (h2 : Frame b c) : Frame a c where
  bytes := h2.bytes.trans h1.bytes
  mono := Nat.le_trans h1.mono h2.mono
  inv := fun h => h2.inv (h1.inv h)
  limited := fun l hl => by
    obtain ⟨l1, e1, b1⟩ := h1.limited l hl
    obtain ⟨l2, e2, b2⟩ := h2.limited l1 e1
    exact ⟨l2, e2, Nat.le_trans b2 b1⟩
  unlimited := fun h => h2.unlimited (h1.unlimited h)

theorem word_frame (d : DState) : Frame d (word d).2 := by
  rcases word_spec d with ⟨hl, hw⟩ | ⟨hl, hb, hw⟩ | ⟨hl, hb, hw⟩ <;> rw [hw]
  · exact Frame.refl d
  · refine ⟨rfl, by simp, fun _ => by simpa [Inv] using hb, ?_, fun h => by simp [h]⟩
    intro l h
    cases l with
    | zero => exact absurd h hl
    | succ l => exact ⟨l, by simp [h], by simp; omega⟩
  · refine ⟨rfl, Nat.le_refl _, fun h => h, ?_, fun h => by simp [h]⟩
    intro l h
    cases l with
    | zero => exact absurd h hl
    | succ l => exact ⟨l, by simp [h], by simp; omega⟩

/-- **C11 (words).** `words n`: on success exactly the `n` little-endian words from the offset on, offset advanced
by `4n`; never a panic; always a frame. -/
theorem words_spec : ∀ (n : Nat) (d : DState),
    Frame d (words n d).2 ∧ (∀ s, (words n d).1 ≠ .panic s) ∧
    (∀ ws, (words n d).1 = .ok ws →
      ws = (List.range n).map (fun i => le32 d.bytes (d.offset + 4 * i)) ∧ (words n d).2.offset = d.offset + 4 * n)
  | 0, d => by simp [words, Frame.refl]
  | n + 1, d => by
    have hf := word_frame d
    rcases word_spec d with ⟨_, hw⟩ | ⟨_, _, hw⟩ | ⟨_, _, hw⟩
    · simp only [words, hw]; exact ⟨Frame.refl d, by simp, by simp⟩
    · obtain ⟨f2, np, ok⟩ := words_spec n { d with offset := d.offset + 4, limit := d.limit.map (· - 1) }
      rw [hw] at hf
      simp only [words, hw]
      generalize hr : words n { d with offset := d.offset + 4, limit := d.limit.map (· - 1) } = r at f2 np ok
      obtain ⟨r1, r2⟩ := r
      cases r1 with
      | ok ws =>
        refine ⟨hf.trans f2, by simp, ?_⟩
        intro ws' h; cases h
        obtain ⟨e1, e2⟩ := ok ws rfl
        refine ⟨?_, by simp at e2 ⊢; omega⟩
        rw [List.range_succ_eq_map, List.map_cons, List.map_map, e1]
        simp only [Nat.mul_zero, Nat.add_zero, List.cons.injEq, true_and]
        apply List.map_congr_left
        intro i _; simp only [Function.comp]; congr 1; omega
      | err e => exact ⟨hf.trans f2, by simp, by simp⟩
      | panic s => exact absurd rfl (np s)
    · rw [hw] at hf; simp only [words, hw]; exact ⟨hf, by simp, by simp⟩

theorem bit64_spec (d : DState) :
    Frame d (bit64 d).2 ∧ (∀ s, (bit64 d).1 ≠ .panic s) ∧
    (∀ v, (bit64 d).1 = .ok v →
      v = le32 d.bytes (d.offset + 4) * 4294967296 + le32 d.bytes d.offset ∧ (bit64 d).2.offset = d.offset + 8) := by
  have hf := word_frame d
  rcases word_spec d with ⟨_, hw⟩ | ⟨_, _, hw⟩ | ⟨_, _, hw⟩
  · simp only [bit64, hw]; exact ⟨Frame.refl d, by simp, by simp⟩
  · rw [hw] at hf
    have hf2 := word_frame { d with offset := d.offset + 4, limit := d.limit.map (· - 1) }
    simp only [bit64, hw]
    rcases word_spec { d with offset := d.offset + 4, limit := d.limit.map (· - 1) } with ⟨_, hw2⟩ | ⟨_, _, hw2⟩ | ⟨_, _, hw2⟩
    · rw [hw2] at hf2 ⊢; exact ⟨hf.trans hf2, by simp, by simp⟩
    · rw [hw2] at hf2 ⊢; exact ⟨hf.trans hf2, by simp, by intro v h; cases h; exact ⟨rfl, by simp⟩⟩
    · rw [hw2] at hf2 ⊢; exact ⟨hf.trans hf2, by simp, by simp⟩
  · rw [hw] at hf; simp only [bit64, hw]; exact ⟨hf, by simp, by simp⟩

/-! ### typed requests -/

theorem enum_spec (E : EnumSpec) (ev : Nat) (d : DState) :
    Frame d (DState.enum E ev d).2 ∧ (∀ s, (DState.enum E ev d).1 ≠ .panic s) ∧
    (∀ v, (DState.enum E ev d).1 = .ok v →
      E.fromU32 (le32 d.bytes d.offset) = some v ∧ (DState.enum E ev d).2.offset = d.offset + 4) := by
  have hf := word_frame d
  rcases word_spec d with ⟨_, hw⟩ | ⟨_, _, hw⟩ | ⟨_, _, hw⟩
  · rw [hw] at hf; simp only [DState.enum, hw]; exact ⟨hf, by simp, by simp⟩
  · rw [hw] at hf; simp only [DState.enum, hw]
    cases hE : E.fromU32 (le32 d.bytes d.offset) with
    | some v => exact ⟨hf, by simp, by intro v' h; cases h; exact ⟨rfl, rfl⟩⟩
    | none =>
      have : ¬ (d.offset + 4 < 4) := by omega
      simp only [this, if_false]; exact ⟨hf, by simp, by simp⟩
  · rw [hw] at hf; simp only [DState.enum, hw]; exact ⟨hf, by simp, by simp⟩

theorem mask_spec (M : MaskSpec) (ev : Nat) (d : DState) :
    Frame d (DState.mask M ev d).2 ∧ (∀ s, (DState.mask M ev d).1 ≠ .panic s) ∧
    (∀ v, (DState.mask M ev d).1 = .ok v →
      M.fromBits (le32 d.bytes d.offset) = some v ∧ (DState.mask M ev d).2.offset = d.offset + 4) := by
  have hf := word_frame d
  rcases word_spec d with ⟨_, hw⟩ | ⟨_, _, hw⟩ | ⟨_, _, hw⟩
  · rw [hw] at hf; simp only [DState.mask, hw]; exact ⟨hf, by simp, by simp⟩
  · rw [hw] at hf; simp only [DState.mask, hw]
    cases hE : M.fromBits (le32 d.bytes d.offset) with
    | some v => exact ⟨hf, by simp, by intro v' h; cases h; exact ⟨rfl, rfl⟩⟩
    | none =>
      have : ¬ (d.offset + 4 < 4) := by omega
      simp only [this, if_false]; exact ⟨hf, by simp, by simp⟩
  · rw [hw] at hf; simp only [DState.mask, hw]; exact ⟨hf, by simp, by simp⟩

/-! ### strings -/

/-- **C11 (string).** Under the invariant and Rust's slice-size bound, `string` never panics. On success there is
a position `nul` with: the byte at `offset + nul` is the first NUL at or after the offset; the result is exactly
the bytes before it and is valid UTF-8; `nul / 4 + 1` words are consumed, the new offset is inside the buffer;
under a limit `l` the consumed words are at most `l` (the string never extends past the limit) and are charged.
On failure the state is unchanged. -/
theorem string_spec (d : DState) (hi : Inv d) (hs : Small d) :
    (∀ s, (DState.string d).1 ≠ .panic s) ∧
    (∀ e, (DState.string d).1 = .err e → (DState.string d).2 = d) ∧
    (∀ bs, (DState.string d).1 = .ok bs → ∃ nul,
      (d.bytes.drop d.offset)[nul]? = some 0 ∧ (∀ j < nul, (d.bytes.drop d.offset)[j]? ≠ some 0) ∧
      bs = (d.bytes.drop d.offset).take nul ∧ validUtf8 bs = true ∧
      (DState.string d).2.offset = d.offset + 4 * (nul / 4 + 1) ∧
      (DState.string d).2.offset ≤ d.bytes.length ∧ (DState.string d).2.bytes = d.bytes ∧
      (∀ l, d.limit = some l → nul / 4 + 1 ≤ l ∧ (DState.string d).2.limit = some (l - (nul / 4 + 1))) ∧
      (d.limit = none → (DState.string d).2.limit = none)) := by
  unfold Inv at hi
  unfold Small at hs
  unfold DState.string
  simp only [hi, if_true]
  generalize hrest : d.bytes.drop d.offset = rest
  have hrl : rest.length = d.bytes.length - d.offset := by rw [← hrest]; simp
  generalize hwin : strWindow d.limit rest.length = window
  have hn : ¬ (min window rest.length > rest.length) := by omega
  simp only [hn, if_false]
  generalize hslice : rest.take (min window rest.length) = slice
  have hsl : slice.length = min window rest.length := by rw [← hslice]; simp
  cases hf : slice.findIdx? (· == 0) with
  | none =>
    refine ⟨?_, ?_, ?_⟩
    · intro s; cases d.limit <;> simp <;> split <;> simp
    · intro e _; cases d.limit <;> simp <;> split <;> simp
    · intro bs; cases d.limit <;> simp <;> split <;> simp
  | some nul =>
    obtain ⟨hnl, hz, hmin⟩ := List.findIdx?_eq_some_iff_getElem.1 hf
    have hum : usizeMax = 2 ^ 64 - 1 := rfl
    have c1 : ¬ ((nul / 4 + 1) * 4 > usizeMax) := by omega
    simp only [c1, if_false]
    by_cases c2 : (nul / 4 + 1) * 4 > slice.length
    · simp [c2]
    · simp only [c2, if_false]
      by_cases c3 : validUtf8 (slice.take nul) = true
      · simp only [c3, Bool.not_true, Bool.false_eq_true, if_false]
        have c4 : ¬ (d.offset + (nul / 4 + 1) * 4 > usizeMax) := by omega
        simp only [c4, if_false]
        have hnr : nul < rest.length := by omega
        have hslice_take : slice.take nul = rest.take nul := by
          rw [← hslice, List.take_take]; congr 1; omega
        have hget : ∀ j, j < nul + 1 → slice[j]? = rest[j]? := by
          intro j hj; rw [← hslice, List.getElem?_take]; simp; omega
        have common : rest[nul]? = some 0 ∧ (∀ j < nul, rest[j]? ≠ some 0) := by
          constructor
          · rw [← hget nul (by omega), List.getElem?_eq_getElem hnl]; simpa using hz
          · intro j hj
            rw [← hget j (by omega), List.getElem?_eq_getElem (by omega)]
            have := hmin j hj; simpa using this
        cases hl : d.limit with
        | none =>
          simp only
          refine ⟨by simp, by simp, ?_⟩
          intro bs h; cases h
          refine ⟨nul, common.1, common.2, hslice_take, c3, ?_, ?_, ?_, ?_, ?_⟩
          · show d.offset + (nul / 4 + 1) * 4 = _; omega
          · show d.offset + (nul / 4 + 1) * 4 ≤ _; omega
          · first | rfl | trivial
          · intro l hl'; simp at hl'
          · first | (intro _; rfl) | trivial
        | some l =>
          have hw : window = min (l * 4) usizeMax := by rw [← hwin, hl]; rfl
          have hc : ¬ (l < nul / 4 + 1) := by omega
          simp only [hc, if_false]
          refine ⟨by simp, by simp, ?_⟩
          intro bs h; cases h
          refine ⟨nul, common.1, common.2, hslice_take, c3, ?_, ?_, ?_, ?_, ?_⟩
          · show d.offset + (nul / 4 + 1) * 4 = _; omega
          · show d.offset + (nul / 4 + 1) * 4 ≤ _; omega
          · first | rfl | trivial
          · intro l' hl'; cases hl'; exact ⟨by omega, rfl⟩
          · intro hc; simp at hc
      · simp [c3]

theorem string_frame (d : DState) (hi : Inv d) (hs : Small d) : Frame d (DState.string d).2 := by
  obtain ⟨np, herr, hok⟩ := string_spec d hi hs
  cases hr : (DState.string d).1 with
  | panic s => exact absurd hr (np s)
  | err e => rw [herr e hr]; exact Frame.refl d
  | ok bs =>
    obtain ⟨nul, _, _, _, _, hoff, hin, hb, hlim, hun⟩ := hok bs hr
    refine ⟨hb, by omega, fun _ => by unfold Inv; rw [hb]; exact hin, ?_, hun⟩
    intro l hl
    obtain ⟨hle, hl'⟩ := hlim l hl
    exact ⟨_, hl', by omega⟩

/-- with the limit exhausted every consuming request fails with limit-reached and consumes nothing -/
theorem limit_reached (d : DState) (h : d.limit = some 0) (hi : Inv d) :
    word d = (.err (.limitReached d.offset), d) ∧ DState.string d = (.err (.limitReached d.offset), d) := by
  constructor
  · rcases word_spec d with ⟨_, hw⟩ | ⟨hl, _⟩ | ⟨hl, _⟩
    · exact hw
    · exact absurd h hl
    · exact absurd h hl
  · unfold Inv at hi
    have hw : ∀ x, strWindow (some 0) x = 0 := by intro x; simp [strWindow]
    unfold DState.string
    simp [h, hi, hw]

/-! ### histories -/

inductive Op where
  | word | words (n : Nat) | bit64 | string
  | enum (E : EnumSpec) (ev : Nat) | mask (M : MaskSpec) (ev : Nat)
  | setLimit (n : Nat) | clearLimit

/-- state after one request; `none` iff the request panics -/
def step (d : DState) : Op → Option DState
  | .word => some (word d).2
  | .words n => match (words n d).1 with | .panic _ => none | _ => some (words n d).2
  | .bit64 => match (bit64 d).1 with | .panic _ => none | _ => some (bit64 d).2
  | .string => match (DState.string d).1 with | .panic _ => none | _ => some (DState.string d).2
  | .enum E ev => match (DState.enum E ev d).1 with | .panic _ => none | _ => some (DState.enum E ev d).2
  | .mask M ev => match (DState.mask M ev d).1 with | .panic _ => none | _ => some (DState.mask M ev d).2
  | .setLimit n => some (d.setLimit n)
  | .clearLimit => some d.clearLimit

def run : DState → List Op → Option DState
  | d, [] => some d
  | d, op :: ops => (step d op).bind (fun d' => run d' ops)

def isLimitOp : Op → Bool
  | .setLimit _ => true
  | .clearLimit => true
  | _ => false

theorem step_frame (d : DState) (op : Op) (hop : isLimitOp op = false) (hi : Inv d) (hs : Small d) :
    ∃ d', step d op = some d' ∧ Frame d d' := by
  cases op with
  | word => exact ⟨_, rfl, word_frame d⟩
  | words n =>
    obtain ⟨f, np, _⟩ := words_spec n d
    simp only [step]
    cases h : (words n d).1 with
    | panic s => exact absurd h (np s)
    | ok _ => exact ⟨_, rfl, f⟩
    | err _ => exact ⟨_, rfl, f⟩
  | bit64 =>
    obtain ⟨f, np, _⟩ := bit64_spec d
    simp only [step]
    cases h : (bit64 d).1 with
    | panic s => exact absurd h (np s)
    | ok _ => exact ⟨_, rfl, f⟩
    | err _ => exact ⟨_, rfl, f⟩
  | string =>
    obtain ⟨np, _, _⟩ := string_spec d hi hs
    have f := string_frame d hi hs
    simp only [step]
    cases h : (DState.string d).1 with
    | panic s => exact absurd h (np s)
    | ok _ => exact ⟨_, rfl, f⟩
    | err _ => exact ⟨_, rfl, f⟩
  | enum E ev =>
    obtain ⟨f, np, _⟩ := enum_spec E ev d
    simp only [step]
    cases h : (DState.enum E ev d).1 with
    | panic s => exact absurd h (np s)
    | ok _ => exact ⟨_, rfl, f⟩
    | err _ => exact ⟨_, rfl, f⟩
  | mask M ev =>
    obtain ⟨f, np, _⟩ := mask_spec M ev d
    simp only [step]
    cases h : (DState.mask M ev d).1 with
    | panic s => exact absurd h (np s)
    | ok _ => exact ⟨_, rfl, f⟩
    | err _ => exact ⟨_, rfl, f⟩
  | setLimit n => cases hop
  | clearLimit => cases hop

/-- **C11 (all histories).** From a fresh decoder on any buffer, no finite sequence of requests and limit changes
panics, the offset stays inside the buffer, and the bytes are never altered. -/
theorem C11_run (d : DState) (ops : List Op) (hi : Inv d) (hs : Small d) :
    ∃ d', run d ops = some d' ∧ Inv d' ∧ d'.bytes = d.bytes ∧ d.offset ≤ d'.offset := by
  induction ops generalizing d with
  | nil => exact ⟨d, rfl, hi, rfl, Nat.le_refl _⟩
  | cons op ops ih =>
    have key : ∃ d1, step d op = some d1 ∧ Inv d1 ∧ d1.bytes = d.bytes ∧ d.offset ≤ d1.offset := by
      cases hop : isLimitOp op with
      | false =>
        obtain ⟨d1, h1, f⟩ := step_frame d op hop hi hs
        exact ⟨d1, h1, f.inv hi, f.bytes, f.mono⟩
      | true =>
        cases op with
        | setLimit n => exact ⟨_, rfl, hi, rfl, Nat.le_refl _⟩
        | clearLimit => exact ⟨_, rfl, hi, rfl, Nat.le_refl _⟩
        | word => cases hop
        | words n => cases hop
        | bit64 => cases hop
        | string => cases hop
        | enum E ev => cases hop
        | mask M ev => cases hop
    obtain ⟨d1, h1, i1, b1, m1⟩ := key
    have hs1 : Small d1 := by unfold Small at hs ⊢; rw [b1]; exact hs
    obtain ⟨d2, h2, i2, b2, m2⟩ := ih d1 i1 hs1
    exact ⟨d2, by simp [run, h1, h2], i2, b2.trans b1, Nat.le_trans m1 m2⟩

/-- **C11 (limit).** After `set_limit n`, any sequence of consuming requests (no further limit change) consumes at
most `n` words: the offset never passes `offset + 4n`, and the limit stays set. -/
theorem C11_limit (d : DState) (n : Nat) (ops : List Op) (hops : ops.all (fun o => !isLimitOp o) = true)
    (hi : Inv d) (hs : Small d) :
    ∃ d', run (d.setLimit n) ops = some d' ∧ d'.offset ≤ d.offset + 4 * n ∧ d'.limit.isSome := by
  suffices h : ∀ (ops : List Op) (d0 : DState) (l : Nat), ops.all (fun o => !isLimitOp o) = true → Inv d0 → Small d0 →
      d0.limit = some l → ∃ d', run d0 ops = some d' ∧ ∃ l', d'.limit = some l' ∧ d'.offset + 4 * l' ≤ d0.offset + 4 * l by
    obtain ⟨d', hr, l', hl', hb⟩ := h ops (d.setLimit n) n hops hi hs rfl
    exact ⟨d', hr, by simp [setLimit] at hb; omega, by simp [hl']⟩
  intro ops
  induction ops with
  | nil => intro d0 l _ _ _ hl; exact ⟨d0, rfl, l, hl, Nat.le_refl _⟩
  | cons op ops ih =>
    intro d0 l hall hi0 hs0 hl
    simp only [List.all_cons, Bool.and_eq_true, Bool.not_eq_true'] at hall
    obtain ⟨d1, h1, f⟩ := step_frame d0 op hall.1 hi0 hs0
    obtain ⟨l1, hl1, hb1⟩ := f.limited l hl
    have hs1 : Small d1 := by unfold Small at hs0 ⊢; rw [f.bytes]; exact hs0
    obtain ⟨d2, h2, l2, hl2, hb2⟩ := ih d1 l1 hall.2 (f.inv hi0) hs1 hl1
    exact ⟨d2, by simp [run, h1, h2], l2, hl2, Nat.le_trans hb2 hb1⟩

/-- clearing the limit restores unlimited reading: the state is exactly the unlimited one at the same offset -/
theorem C11_clear (d : DState) : d.clearLimit = { d with limit := none } ∧
    (d.offset + 4 ≤ d.bytes.length → (word d.clearLimit).1 = .ok (le32 d.bytes d.offset)) := by
  refine ⟨rfl, fun h => ?_⟩
  rcases word_spec d.clearLimit with ⟨hl, _⟩ | ⟨_, _, hw⟩ | ⟨_, hb, _⟩
  · simp [clearLimit] at hl
  · rw [hw]; rfl
  · exact absurd h hb

/-- non-vacuity -/
example : Inv (DState.new [1, 2, 3]) ∧ Small (DState.new [1, 2, 3]) := by simp [Inv, Small, DState.new]
example : (DState.string (DState.new [97, 98, 0])).1 = .err (.streamExpected 0) := by decide
example : (DState.string ((DState.new [97, 98, 99, 100, 0, 0, 0, 0]).setLimit 1)).1 = .err (.limitReached 4) := by decide

end Rspirv.Props.C11
