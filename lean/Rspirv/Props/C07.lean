import Rspirv.Model.Disasm
import Rspirv.Generated.Spirv
import Rspirv.Generated.Grammar
import Rspirv.Generated.Disas
import Rspirv.Generated.Reflect
import Rspirv.Generated.Operands
import Rspirv.Generated.Traversals
import Rspirv.Props.C15
/-!
# C07 — disassembly is a complete, unambiguous rendering of the instruction stream

`Rspirv.Model.Disasm` models `binary/disassemble.rs` in two layers: instructions become `Line`s of `Tok`ens (ids,
numbers, specification names by name code, mask bit name lists, strings, float bit patterns) and a lexical layer
renders tokens to characters. The theorems are about the token layer, for every module value:

* `C07_lines`   – the text is the header lines followed by exactly one line per instruction, in assembly order
                  (`Module::all_inst_iter`, the order `C15` shows `assemble` uses);
* `C07_shape`   – a line carries `%id = ` iff the instruction has a result id, the opcode's grammar name, the result
                  type iff present, and one token per operand in order;
* `C07_vocabulary` – over the regenerated tables: different opcodes have different names, different declared values of an
                  enumeration different names, different valid values of a mask different bit-name lists (every mask bit
                  has a printed name), different extended instruction numbers different names;
* `C07_operand_inj`, `C07_signed_inj`, `C07_constant_inj` – an operand token determines the operand's value.

Not proved here (covered by the read-back oracle of `tools/props/c07.py`, which reads the implementation's text with
the vocabulary only): the lexical layer (escaping, `Display` of floats, splitting at blanks) and the composition
"grammar-directed reading of the token list gives back the operand list".
-/
namespace Rspirv.Props.C07
open Rspirv Rspirv.Model

/-! ### generic lemmas -/

theorem inj_of_nodup_map {α β : Type} (f : α → β) : ∀ (l : List α), (l.map f).Nodup → ∀ a b, a ∈ l → b ∈ l → f a = f b → a = b
  | [], _, _, _, ha, _, _ => by cases ha
  | x :: t, hn, a, b, ha, hb, h => by
    rw [List.map_cons, List.nodup_cons] at hn
    rcases List.mem_cons.1 ha with e1 | ha' <;> rcases List.mem_cons.1 hb with e2 | hb'
    · rw [e1, e2]
    · rw [e1] at h; exact absurd (List.mem_map.2 ⟨b, hb', h.symm⟩) hn.1
    · rw [e2] at h; exact absurd (List.mem_map.2 ⟨a, ha', h⟩) hn.1
    · exact inj_of_nodup_map f t hn.2 a b ha' hb' h

theorem flatMap_congr' {α β : Type} (f g : α → List β) : ∀ (l : List α), (∀ a ∈ l, f a = g a) → l.flatMap f = l.flatMap g
  | [], _ => rfl
  | x :: t, h => by
    rw [List.flatMap_cons, List.flatMap_cons, h x List.mem_cons_self,
      flatMap_congr' f g t (fun a ha => h a (List.mem_cons_of_mem _ ha))]

theorem filter_map_inj (rows : List (Nat × Nat)) (p q : Nat × Nat → Bool) (hn : (rows.map (·.2)).Nodup) :
    (rows.filter p).map (·.2) = (rows.filter q).map (·.2) → ∀ r ∈ rows, p r = q r := by
  induction rows with
  | nil => intro _ r hr; cases hr
  | cons r t ih =>
    intro h x hx
    rw [List.map_cons, List.nodup_cons] at hn
    have sub : ∀ (f : Nat × Nat → Bool) y, y ∈ (t.filter f).map (·.2) → y ∈ t.map (·.2) := by
      intro f y hy
      obtain ⟨z, hz, rfl⟩ := List.mem_map.1 hy
      exact List.mem_map.2 ⟨z, (List.mem_filter.1 hz).1, rfl⟩
    cases hp : p r <;> cases hq : q r
    · simp only [List.filter_cons, hp, hq] at h
      rcases List.mem_cons.1 hx with rfl | hx
      · rw [hp, hq]
      · exact ih hn.2 (by simpa using h) x hx
    · simp only [List.filter_cons, hp, hq, List.map_cons] at h
      exact absurd (sub p _ (by rw [show (List.filter p t).map (·.2) = _ from h]; exact List.mem_cons_self)) hn.1
    · simp only [List.filter_cons, hp, hq, List.map_cons] at h
      exact absurd (sub q _ (by rw [← show _ = (List.filter q t).map (·.2) from h]; exact List.mem_cons_self)) hn.1
    · simp only [List.filter_cons, hp, hq, List.map_cons] at h
      rcases List.mem_cons.1 hx with rfl | hx
      · rw [hp, hq]
      · exact ih hn.2 (List.cons.inj h).2 x hx

/-- the rows of a mask name table are single bits with pairwise different names -/
def rowsOk (rows : List (Nat × Nat)) : Bool :=
  rows.all (fun r => r.1 == 2 ^ Nat.log2 r.1) && nodupCheck (rows.map (·.2))

def rowBits (rows : List (Nat × Nat)) : Nat := rows.foldr (fun r acc => r.1 ||| acc) 0

theorem testBit_rowBits (rows : List (Nat × Nat)) (k : Nat) :
    (rowBits rows).testBit k = rows.any (fun r => r.1.testBit k) := by
  induction rows with
  | nil => simp [rowBits]
  | cons r t ih =>
    simp only [rowBits, List.foldr_cons, Nat.testBit_or, List.any_cons] at ih ⊢
    rw [ih]

theorem and_pow_beq (v k : Nat) : (v &&& 2 ^ k == 2 ^ k) = v.testBit k := by
  cases h : v.testBit k
  · apply beq_false_of_ne
    intro e
    have := congrArg (fun x => x.testBit k) e
    simp only [Nat.testBit_and, h, Nat.testBit_two_pow_self, Bool.false_and] at this
    cases this
  · apply beq_iff_eq.2
    apply Nat.eq_of_testBit_eq
    intro j
    rw [Nat.testBit_and, Nat.testBit_two_pow]
    by_cases hj : k = j
    · subst hj; simp [h]
    · simp [hj]

/-- **mask vocabulary is unambiguous.** Two values made of bits of the table with the same printed names are equal. -/
theorem maskTok_inj (rows : List (Nat × Nat)) (hr : rowsOk rows = true) (a b : Nat)
    (ha : a &&& rowBits rows = a) (hb : b &&& rowBits rows = b) (h : maskTok rows a = maskTok rows b) : a = b := by
  simp only [rowsOk, Bool.and_eq_true, List.all_eq_true, beq_iff_eq] at hr
  obtain ⟨hpow, hnd⟩ := hr
  have hnd := nodup_of_check _ hnd
  have hnames : (rows.filter (fun r => a &&& r.1 == r.1)).map (·.2) = (rows.filter (fun r => b &&& r.1 == r.1)).map (·.2) := by
    simpa [maskTok] using h
  have agree := filter_map_inj rows _ _ hnd hnames
  apply Nat.eq_of_testBit_eq
  intro k
  cases hex : rows.any (fun r => r.1.testBit k)
  · have za : a.testBit k = false := by
      rw [← ha, Nat.testBit_and, testBit_rowBits, hex, Bool.and_false]
    have zb : b.testBit k = false := by
      rw [← hb, Nat.testBit_and, testBit_rowBits, hex, Bool.and_false]
    rw [za, zb]
  · obtain ⟨r, hr, hk⟩ := List.any_eq_true.1 hex
    have hp := hpow r hr
    have : Nat.log2 r.1 = k := by
      rw [hp, Nat.testBit_two_pow] at hk
      exact of_decide_eq_true hk
    have e : (a &&& r.1 == r.1) = (b &&& r.1 == r.1) := agree r hr
    rw [hp, this, and_pow_beq, and_pow_beq] at e
    exact e

/-- first declared name of a value -/
theorem debugName_inj (E : EnumSpec) (hn : nodupCheck (E.decl.map (·.1)) = true) (s a b : Nat)
    (ha : a ∈ E.declVals) (h : debugName E s a = debugName E s b) : a = b := by
  unfold debugName at h
  obtain ⟨d, hd, hda⟩ := List.mem_map.1 ha
  cases fa : E.decl.find? (fun p => p.2 == a) with
  | none =>
    have := List.find?_eq_none.1 fa d hd
    simp [hda] at this
  | some p =>
    cases fb : E.decl.find? (fun p => p.2 == b) with
    | none => rw [fa, fb] at h; cases h
    | some q =>
      rw [fa, fb] at h
      have hpq : p.1 = q.1 := by injection h
      have hp := List.find?_some fa
      have hq := List.find?_some fb
      have mp := List.mem_of_find?_eq_some fa
      have mq := List.mem_of_find?_eq_some fb
      have : p = q := by
        have nd := nodup_of_check _ hn
        exact inj_of_nodup_map (·.1) _ nd p q mp mq hpq
      simp only [beq_iff_eq] at hp hq
      rw [← hp, ← hq, this]

theorem debugName_ne_bad (E : EnumSpec) (s a : Nat) (ha : a ∈ E.declVals) : debugName E s a ≠ .bad := by
  unfold debugName
  obtain ⟨d, hd, hda⟩ := List.mem_map.1 ha
  cases fa : E.decl.find? (fun p => p.2 == a) with
  | none =>
    have := List.find?_eq_none.1 fa d hd
    simp [hda] at this
  | some p => intro h; cases h

/-- **signed literals.** `(v as iN).to_string()` determines `v` -/
theorem C07_signed_inj (bits : Nat) (hb : 0 < bits) (a b : Nat) (ha : a < 2 ^ bits) (hb' : b < 2 ^ bits)
    (h : signedTok bits a = signedTok bits b) : a = b := by
  unfold signedTok at h
  have hhalf : 2 ^ (bits - 1) * 2 = 2 ^ bits := by
    rw [← Nat.pow_succ]; congr 1; omega
  split at h <;> split at h
  · injection h
  · cases h
  · cases h
  · injection h with h; omega

/-! ### structure of the text -/

section Structure
variable (D : DisTables) (m : Module Inst)

/-- **C07 (lines).** The disassembly is the header comment lines (iff the module has a header) followed by one rendered
line per placed instruction. -/
theorem C07_lines : disasLines D m =
    (m.header.map headerLines).getD [] ++
      (m.placed D.globalOrder).map (fun p => (lineAt D (disasExtSets D m) (disasTracker D m) p.1 p.2).render) := by
  simp [disasLines, moduleLines, List.map_map, Function.comp_def]

theorem block_placed (b : Block Inst) : b.placed.map (·.2) = b.chain [0, 1] := by
  simp [Block.placed, Block.chain, Block.piece, List.map_map, Function.comp_def]

theorem function_placed (f : Function Inst) : f.placed.map (·.2) = f.chain [0, 1, 2, 3] [0, 1] := by
  simp only [Function.placed, Function.chain, List.map_append, List.map_map, Function.comp_def, List.map_id',
    List.flatMap_cons, List.flatMap_nil, Function.piece, List.append_nil, List.map_flatMap, List.append_assoc]
  congr 2
  congr 1
  apply flatMap_congr'
  intro b _
  exact block_placed b

/-- **C07 (order, nothing skipped).** The instructions printed are exactly those of `Module::all_inst_iter`, in that
order — the order in which `C15_assemble` shows the module is assembled. -/
theorem C07_order (hgo : D.globalOrder = Rspirv.Generated.Traversals.globalIter) :
    (m.placed D.globalOrder).map (·.2) = Rspirv.Props.C15.allInstIter m := by
  rw [Rspirv.Props.C15.C15_explicit]
  have hg : Rspirv.Generated.Traversals.globalIter = [0, 1, 2, 3, 4, 5, 6, 7, 8, 9, 10] := by decide
  rw [hgo, hg]
  simp only [Module.placed, List.map_append, List.map_map, Function.comp_def, List.map_id', List.map_flatMap]
  congr 1
  · simp [Module.globalChain, Module.sect]
  apply flatMap_congr'
  intro f _
  have hb' : (Block.chain [0, 1] : Block Inst → List Inst) = fun b => b.label.toList ++ b.insts := by
    funext b; simp [Block.chain, Block.piece]
  have := function_placed f
  simp only [Function.chain, List.flatMap_cons, List.flatMap_nil, Function.piece, List.append_nil, hb',
    List.append_assoc] at this ⊢
  exact this

theorem C07_line_count (hgo : D.globalOrder = Rspirv.Generated.Traversals.globalIter) :
    (disasLines D m).length = (if m.header.isSome then 4 else 0) + (Rspirv.Props.C15.allInstIter m).length := by
  rw [C07_lines, ← C07_order D m hgo]
  cases h : m.header <;> simp [headerLines] <;> omega

end Structure

/-! ### shape of a line -/

section Shape
variable (D : DisTables) (sets : ExtSets) (τ : Tracker)

theorem constantLine_head (i : Inst) :
    (constantLine D τ i).rid = i.rid ∧ (constantLine D τ i).rtype = i.rtype ∧ (constantLine D τ i).op = opNameCode D i.opcode := by
  unfold constantLine
  split
  · simp [instLine, lineWith]
  · split
    · split <;> simp [instLine, lineWith]
    · simp [lineWith]
    · simp [instLine, lineWith]

theorem extInstLine_head (i : Inst) :
    (extInstLine D sets i).rid = i.rid ∧ (extInstLine D sets i).rtype = i.rtype ∧ (extInstLine D sets i).op = opNameCode D i.opcode := by
  unfold extInstLine
  split
  · split
    · split
      · simp [instLine, lineWith]
      · split <;> simp [instLine, lineWith]
    · simp [instLine, lineWith]
  · simp [instLine, lineWith]

/-- **C07 (shape).** Whatever the position: the line shows `%id = ` iff the instruction has a result id, the grammar name
of its opcode, and the result type iff it has one. -/
theorem C07_shape (w : Where) (i : Inst) :
    (lineAt D sets τ w i).rid = i.rid ∧ (lineAt D sets τ w i).rtype = i.rtype ∧
    (lineAt D sets τ w i).op = opNameCode D i.opcode := by
  cases w <;> simp only [lineAt]
  · split
    · exact constantLine_head D τ i
    · simp [instLine, lineWith]
  · simp [instLine, lineWith]
  · split
    · exact extInstLine_head D sets i
    · simp [instLine, lineWith]

theorem constantLine_toks (i : Inst) (h1 : i.operands.length = 1) :
    (constantLine D τ i).toks.length = 1 := by
  unfold constantLine
  split
  · simp [instLine, lineWith, h1]
  · split
    · split <;> simp [instLine, lineWith, h1]
    · simp [lineWith]
    · simp [instLine, lineWith, h1]

theorem extInstLine_toks (i : Inst) : (extInstLine D sets i).toks.length = i.operands.length := by
  unfold extInstLine
  split
  · rename_i v0 id v1 num rest hops
    split
    · split
      · simp [instLine, lineWith]
      · split <;> simp [instLine, lineWith, hops]
    · simp [instLine, lineWith]
  · simp [instLine, lineWith]

/-- one token per operand, in order (an `OpConstant` has exactly one operand by its grammar entry) -/
theorem C07_tokens (w : Where) (i : Inst) (hc : i.opcode = D.opConstant → i.operands.length = 1) :
    (lineAt D sets τ w i).toks.length = i.operands.length := by
  cases w <;> simp only [lineAt]
  · split
    · rename_i h
      rw [constantLine_toks D τ i (hc (by simpa using h)), hc (by simpa using h)]
    · simp [instLine, lineWith]
  · simp [instLine, lineWith]
  · split
    · exact extInstLine_toks D sets i
    · simp [instLine, lineWith]

/-- outside the two context dependent renderings every operand is printed by `operandTok`, positionally -/
theorem C07_plain (i : Inst) : (instLine D i).toks = i.operands.map (operandTok D) := rfl

end Shape

/-! ### the vocabulary of the regenerated tables -/

open Rspirv.Generated.Operands in
def theD : DisTables :=
  { enums := Rspirv.Generated.Spirv.enums, masks := Rspirv.Generated.Spirv.masks
    operandVariants := operandVariants
    maskNames := Rspirv.Generated.Disas.maskNames, forwarded := Rspirv.Generated.Disas.forwarded
    idDispatch := Rspirv.Generated.Disas.idDispatch
    displayArms := Rspirv.Generated.Reflect.displayArms
    globalOrder := Rspirv.Generated.Traversals.globalIter
    core := Rspirv.Generated.Grammar.coreTable, glsl := Rspirv.Generated.Grammar.glslTable
    opencl := Rspirv.Generated.Grammar.openclTable
    opEnum := Rspirv.Generated.Spirv.enum_Op
    vDim := v_Dim, opConstant := op_Constant, opExtInst := op_ExtInst, opExtInstImport := op_ExtInstImport
    opTypeInt := op_TypeInt, opTypeFloat := op_TypeFloat, vIdRef := v_IdRef, vLit32 := v_LiteralBit32
    vExtInstInteger := v_LiteralExtInstInteger
    isType := fun _ => false }

/-- the table check behind `C07_vocabulary` (all linear):
every enumeration's variant names are pairwise different; every mask name table consists of single bits with different
names and names every bit of its mask (`all()`); every forwarded variant is a mask variant with a name table; every
mask variant is forwarded (none falls to the `bitflags` `Debug` text); every other variant has a `Display` arm;
opcode and extended instruction names are pairwise different. -/
def vocabularyOk (D : DisTables) : Bool :=
  D.enums.all (fun E => nodupCheck (E.decl.map (·.1))) &&
  nodupCheck (D.opEnum.decl.map (·.1)) &&
  D.maskNames.all (fun r => rowsOk r.2 && (match D.masks[r.1]? with | some M => rowBits r.2 == M.allBits | none => false)) &&
  nodupCheck (D.maskNames.map (·.1)) &&
  (List.range D.operandVariants.length).all (fun v =>
    match D.operandVariants[v]? with
    | none => false
    | some (_, cls, ix) =>
      if D.idDispatch.contains v then true
      else if cls == 1 then D.forwarded.contains v && (D.maskNames.find? (fun r => r.1 == ix)).isSome
      else !D.forwarded.contains v && (D.displayArms.find? (fun a => a.1 == v)).isSome &&
           (cls != 0 || decide (ix < D.enums.length))) &&
  nodupCheck (D.core.map (·.name)) && nodupCheck (D.core.map (·.opcode)) &&
  nodupCheck (D.glsl.map (·.name)) && nodupCheck (D.glsl.map (·.opcode)) &&
  nodupCheck (D.opencl.map (·.name)) && nodupCheck (D.opencl.map (·.opcode))

theorem vocabulary_ok : vocabularyOk theD = true := by decide +kernel

/-- when is a word a legal payload of an operand variant: an enumeration variant holds a declared value, a mask variant
holds bits of the mask only (what `from_u32` / `from_bits` accept: `C08`), everything else any word -/
def ValidPayload (D : DisTables) (variant v : Nat) : Prop :=
  match D.operandVariants[variant]? with
  | none => False
  | some (_, cls, ix) =>
    if cls = 0 then (match D.enums[ix]? with | some E => v ∈ E.declVals | none => False)
    else if cls = 1 then (match D.masks[ix]? with | some M => v &&& M.allBits = v | none => False)
    else if cls = 5 then v ∈ D.opEnum.declVals
    else True

instance (D : DisTables) (variant v : Nat) : Decidable (ValidPayload D variant v) := by
  unfold ValidPayload
  split
  · exact instDecidableFalse
  · split
    · split <;> infer_instance
    · split
      · split <;> infer_instance
      · infer_instance

theorem lookupName_inj (t : List Entry) (hn : nodupCheck (t.map (·.name)) = true) (a b : Nat) (ea eb : Entry)
    (ha : lookupOpcode t a = some ea) (hb : lookupOpcode t b = some eb) (h : ea.name = eb.name) : a = b := by
  obtain ⟨ma, oa⟩ := lookupOpcode_some t a ea ha
  obtain ⟨mb, ob⟩ := lookupOpcode_some t b eb hb
  have : ea = eb := inj_of_nodup_map (·.name) _ (nodup_of_check _ hn) ea eb ma mb h
  rw [← oa, ← ob, this]

section Vocabulary
variable (D : DisTables) (hv : vocabularyOk D = true)
include hv

private theorem vparts :
    (∀ E ∈ D.enums, nodupCheck (E.decl.map (·.1)) = true) ∧ nodupCheck (D.opEnum.decl.map (·.1)) = true ∧
    (∀ r ∈ D.maskNames, rowsOk r.2 = true ∧ ∃ M, D.masks[r.1]? = some M ∧ rowBits r.2 = M.allBits) ∧
    (∀ v nm cls ix, D.operandVariants[v]? = some (nm, cls, ix) → D.idDispatch.contains v = false →
      (cls = 1 → D.forwarded.contains v = true ∧ (D.maskNames.find? (fun r => r.1 == ix)).isSome = true) ∧
      (cls ≠ 1 → D.forwarded.contains v = false ∧ (D.displayArms.find? (fun a => a.1 == v)).isSome = true ∧
        (cls = 0 → ix < D.enums.length))) ∧
    nodupCheck (D.core.map (·.name)) = true ∧ nodupCheck (D.glsl.map (·.name)) = true ∧
    nodupCheck (D.opencl.map (·.name)) = true := by
  simp only [vocabularyOk, Bool.and_eq_true, List.all_eq_true] at hv
  obtain ⟨⟨⟨⟨⟨⟨⟨⟨⟨⟨h1, h2⟩, h3⟩, _⟩, h5⟩, h6⟩, _⟩, h8⟩, _⟩, h10⟩, _⟩ := hv
  refine ⟨h1, h2, ?_, ?_, h6, h8, h10⟩
  · intro r hr
    have := h3 r hr
    refine ⟨this.1, ?_⟩
    cases hm : D.masks[r.1]? with
    | none => rw [hm] at this; exact absurd this.2 (by simp)
    | some M => rw [hm] at this; exact ⟨M, rfl, by simpa using this.2⟩
  · intro v nm cls ix hget hid
    have hlt : v < D.operandVariants.length := by
      rcases Nat.lt_or_ge v D.operandVariants.length with h | h
      · exact h
      · rw [List.getElem?_eq_none h] at hget; cases hget
    have := h5 v (List.mem_range.2 hlt)
    rw [hget] at this
    simp only [hid, Bool.false_eq_true, if_false] at this
    by_cases hc : cls = 1
    · subst hc
      simp only [beq_self_eq_true, if_true, Bool.and_eq_true] at this
      exact ⟨fun _ => this, fun h => absurd rfl h⟩
    · have hc' : (cls == 1) = false := by simpa using hc
      simp only [hc', Bool.false_eq_true, if_false, Bool.and_eq_true, Bool.not_eq_true', Bool.or_eq_true,
        bne_iff_ne, ne_eq, decide_eq_true_eq] at this
      refine ⟨fun h => absurd h hc, fun _ => ⟨this.1.1, this.1.2, ?_⟩⟩
      intro h0
      rcases this.2 with h | h
      · exact absurd h0 h
      · exact h

/-- **C07 (operand vocabulary).** For every operand variant: two legal payloads printed as the same token are equal, and a
legal payload is never printed as the failure token. -/
theorem C07_operand_inj (variant a b : Nat) (ha : ValidPayload D variant a) (hb : ValidPayload D variant b)
    (h : operandTok D (.w variant a) = operandTok D (.w variant b)) : a = b := by
  obtain ⟨henum, hop, hmask, hvar, _, _, _⟩ := vparts D hv
  unfold ValidPayload at ha hb
  unfold operandTok at h
  cases hid : D.idDispatch.contains variant
  case true => simp only [hid, if_true] at h; injection h
  case false =>
  simp only [hid, Bool.false_eq_true, if_false] at h
  cases hget : D.operandVariants[variant]? with
  | none => rw [hget] at ha; exact ha.elim
  | some e =>
    obtain ⟨nm, cls, ix⟩ := e
    rw [hget] at ha hb
    simp only [hget] at h
    obtain ⟨hm1, hm2⟩ := hvar variant nm cls ix hget hid
    by_cases hc : cls = 1
    · subst hc
      obtain ⟨hf, hfind⟩ := hm1 rfl
      simp only [hf, if_true] at h
      cases hr : D.maskNames.find? (fun r => r.1 == ix) with
      | none => rw [hr] at hfind; cases hfind
      | some r =>
        simp only [hr] at h
        have hrm := List.mem_of_find?_eq_some hr
        have hrix : r.1 = ix := by simpa using List.find?_some hr
        obtain ⟨hrows, M, hM, hbits⟩ := hmask r hrm
        simp only [show (1 : Nat) ≠ 0 from by decide, if_false, if_true] at ha hb
        rw [← hrix, hM] at ha hb
        simp only [] at ha hb
        exact maskTok_inj r.2 hrows a b (by rw [hbits]; exact ha) (by rw [hbits]; exact hb) h
    · obtain ⟨hf, hdisp, hix⟩ := hm2 hc
      simp only [hf, Bool.false_eq_true, if_false] at h
      cases hd : D.displayArms.find? (fun a => a.1 == variant) with
      | none => rw [hd] at hdisp; cases hdisp
      | some arm =>
        simp only [hd, Option.map_some] at h
        by_cases h1 : arm.2 = 1
        · simp only [h1] at h; injection h
        · have hne : ∀ (x : Tok) (y : Tok), (match (some arm.2 : Option Nat) with | some 1 => x | some _ => y | none => Tok.bad) = y := by
            intro x y
            cases hk : arm.2 with
            | zero => rfl
            | succ n => cases n with
              | zero => exact absurd hk h1
              | succ n => rfl
          by_cases h0 : cls = 0
          · subst h0
            have hlt := hix rfl
            have hE : D.enums[ix]? = some D.enums[ix] := List.getElem?_eq_getElem hlt
            simp only [hE, if_true] at ha hb
            have key : debugName D.enums[ix] (if arm.2 == 2 then 3 else 0) a = debugName D.enums[ix] (if arm.2 == 2 then 3 else 0) b := by
              cases hk : arm.2 with
              | zero => simp only [hk, hE] at h; simpa using h
              | succ n => cases n with
                | zero => exact absurd hk h1
                | succ n => simp only [hk, hE] at h; simpa using h
            exact debugName_inj _ (henum _ (List.getElem_mem hlt)) _ a b ha key
          · by_cases h5 : cls = 5
            · subst h5
              simp only [show (5 : Nat) ≠ 0 from by decide, show (5 : Nat) ≠ 1 from by decide, if_false, if_true] at ha hb
              have key : debugName D.opEnum 0 a = debugName D.opEnum 0 b := by
                cases hk : arm.2 with
                | zero => simp only [hk] at h; simpa using h
                | succ n => cases n with
                  | zero => exact absurd hk h1
                  | succ n => simp only [hk] at h; simpa using h
              exact debugName_inj _ hop _ a b ha key
            · have c0 : (cls == 0) = false := by simpa using h0
              have c1 : (cls == 1) = false := by simpa using hc
              have c5 : (cls == 5) = false := by simpa using h5
              cases hk : arm.2 with
              | zero => simp only [hk, c0, c1, c5, Bool.false_eq_true, if_false] at h; injection h
              | succ n => cases n with
                | zero => exact absurd hk h1
                | succ n => simp only [hk, c0, c1, c5, Bool.false_eq_true, if_false] at h; injection h

/-- **C07 (opcode names).** Opcodes of the grammar table with the same printed name are the same opcode. -/
theorem C07_opcode_inj (a b : Nat) (ha : (lookupOpcode D.core a).isSome) (hb : (lookupOpcode D.core b).isSome)
    (h : opNameCode D a = opNameCode D b) : a = b := by
  obtain ⟨_, _, _, _, hcore, _, _⟩ := vparts D hv
  unfold opNameCode at h
  cases ea : lookupOpcode D.core a with
  | none => rw [ea] at ha; cases ha
  | some x =>
    cases eb : lookupOpcode D.core b with
    | none => rw [eb] at hb; cases hb
    | some y =>
      rw [ea, eb] at h
      exact lookupName_inj D.core hcore a b x y ea eb (by simpa using h)

/-- **C07 (extended instruction names).** Within one recognised set, instruction numbers with the same name are equal. -/
theorem C07_extinst_inj (k a b : Nat) (ea eb : Entry)
    (ha : lookupOpcode (if k == 0 then D.glsl else D.opencl) a = some ea)
    (hb : lookupOpcode (if k == 0 then D.glsl else D.opencl) b = some eb) (h : ea.name = eb.name) : a = b := by
  obtain ⟨_, _, _, _, _, hg, ho⟩ := vparts D hv
  cases hk : k == 0
  · rw [hk] at ha hb; exact lookupName_inj D.opencl ho a b ea eb ha hb h
  · rw [hk] at ha hb; exact lookupName_inj D.glsl hg a b ea eb ha hb h

end Vocabulary

/-- **C07 (typed constants).** For a fixed declared type the token of an `OpConstant` literal determines its bits
(32-bit case; `v < 2^32` is what a decoded word satisfies). -/
theorem C07_constant_inj (t : TType) (a b : Nat) (ha : a < 2 ^ 32) (hb : b < 2 ^ 32)
    (h : (match t with | .int _ true => signedTok 32 a | .int _ false => Tok.num a | .float _ => Tok.f32 a) =
         (match t with | .int _ true => signedTok 32 b | .int _ false => Tok.num b | .float _ => Tok.f32 b)) : a = b := by
  cases t with
  | int w s => cases s with
    | true => exact C07_signed_inj 32 (by decide) a b ha hb h
    | false => injection h
  | float w => injection h

theorem C07_constant64_inj (t : TType) (a b : Nat) (ha : a < 2 ^ 64) (hb : b < 2 ^ 64)
    (h : (match t with | .int _ true => signedTok 64 a | .int _ false => Tok.num a | .float _ => Tok.f64 a) =
         (match t with | .int _ true => signedTok 64 b | .int _ false => Tok.num b | .float _ => Tok.f64 b)) : a = b := by
  cases t with
  | int w s => cases s with
    | true => exact C07_signed_inj 64 (by decide) a b ha hb h
    | false => injection h
  | float w => injection h

/-- the theorems instantiated at the tables regenerated from the working tree -/
theorem C07_vocabulary :
    (∀ variant a b, ValidPayload theD variant a → ValidPayload theD variant b →
      operandTok theD (.w variant a) = operandTok theD (.w variant b) → a = b) ∧
    (∀ a b, (lookupOpcode theD.core a).isSome → (lookupOpcode theD.core b).isSome → opNameCode theD a = opNameCode theD b → a = b) :=
  ⟨C07_operand_inj theD vocabulary_ok, C07_opcode_inj theD vocabulary_ok⟩

/-! ### non-vacuity -/

example : ValidPayload theD Rspirv.Generated.Operands.v_Dim 1 := by decide +kernel
example : operandTok theD (.w Rspirv.Generated.Operands.v_FunctionControl 3) =
    .mask [nameCode "Inline", nameCode "DontInline"] := by decide +kernel
example : signedTok 32 0xffffffff = .neg 1 := by decide

end Rspirv.Props.C07
