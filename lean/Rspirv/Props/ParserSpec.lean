import Rspirv.Props.C04
import Rspirv.Model.Spec
/-!
# The parser refines the grammar recogniser `Spec`

`View B eo d ws`: the decoder state `d` is inside an instruction whose remaining operand words are exactly `ws` (the limit is
`ws.length`, the words are in the buffer). Every parser routine started from such a state behaves as the corresponding
`Spec` function on `ws` — success with the same value and a state that views the remaining words, or no success at
all. Consequences are drawn in `Props/C03.lean` (acceptance = grammar), `Props/C02.lean`, `Props/C01.lean`.
-/
namespace Rspirv.Props.ParserSpec
open Rspirv Rspirv.Model Rspirv.Model.DState Rspirv.Props.C11 Rspirv.Props.C04

structure View (B : List Nat) (eo : Nat) (d : DState) (ws : List Nat) : Prop where
  bytes : d.bytes = B
  limit : d.limit = some ws.length
  stop : d.offset + 4 * ws.length = eo
  fits : eo ≤ B.length
  words : ∀ k, k < ws.length → le32 B (d.offset + 4 * k) = ws.getD k 0
  bytesOk : ∀ b ∈ B, b < 256
  small : B.length < 2 ^ 63

variable {B : List Nat} {eo : Nat}

theorem View.avail {d : DState} {ws : List Nat} (h : View B eo d ws) : d.offset + 4 * ws.length ≤ d.bytes.length := by
  rw [h.bytes, h.stop]; exact h.fits

theorem View.words' {d : DState} {ws : List Nat} (h : View B eo d ws) :
    ∀ k, k < ws.length → le32 d.bytes (d.offset + 4 * k) = ws.getD k 0 := by rw [h.bytes]; exact h.words

theorem View.bytesOk' {d : DState} {ws : List Nat} (h : View B eo d ws) : ∀ b ∈ d.bytes, b < 256 := by rw [h.bytes]; exact h.bytesOk

/-- the routine succeeds exactly when the specification does, with the same value, leaving a state that views the
specification's remaining words -/
def Refines {α β : Type} (B : List Nat) (eo : Nat) (r : PRes β α × DState) (s : Option (α × List Nat)) : Prop :=
  match s with
  | some (x, rest) => r.1 = .ok x ∧ View B eo r.2 rest
  | none => ∀ x, r.1 ≠ .ok x

theorem Refines.of_some {α β : Type} {r : PRes β α × DState} {x : α} {rest : List Nat}
    (h : Refines B eo r (some (x, rest))) : ∃ d', r = (.ok x, d') ∧ View B eo d' rest := by
  obtain ⟨r1, d1⟩ := r
  simp only [Refines] at h
  exact ⟨d1, by rw [h.1], h.2⟩

theorem Refines.of_none {α β : Type} {r : PRes β α × DState} (h : Refines B eo r none) : ∀ x d', r ≠ (.ok x, d') := by
  intro x d' e
  simp only [Refines] at h
  exact h x (by rw [e])

theorem Refines.mk_none {α β : Type} {r : PRes β α × DState} (h : ∀ x d', r ≠ (.ok x, d')) : Refines B eo r none := by
  obtain ⟨r1, d1⟩ := r
  simp only [Refines]
  intro x hx
  exact h x d1 (by rw [hx])

theorem View.inv {d : DState} {ws : List Nat} (h : View B eo d ws) : C11.Inv d := by
  have := h.avail; unfold C11.Inv; omega

theorem View.isSmall {d : DState} {ws : List Nat} (h : View B eo d ws) : Small d := by
  unfold Small; rw [h.bytes]; exact h.small

/-! ### one word -/

theorem word_cons (d : DState) (w : Nat) (t : List Nat) (hv : View B eo d (w :: t)) :
    ∃ d', word d = (.ok w, d') ∧ View B eo d' t := by
  have hl := hv.limit
  have ha := hv.avail
  have hst := hv.stop
  simp only [List.length_cons] at hl ha hst
  rcases word_spec d with ⟨h0, _⟩ | ⟨_, hb, hw⟩ | ⟨_, hb, _⟩
  · rw [hl] at h0; cases h0
  · have h0 := hv.words' 0 (by simp)
    simp only [Nat.mul_zero, Nat.add_zero, List.getD_eq_getElem?_getD, List.getElem?_cons_zero, Option.getD_some] at h0
    refine ⟨{ bytes := d.bytes, offset := d.offset + 4, limit := Option.map (fun x => x - 1) d.limit }, ?_, ?_⟩
    · rw [hw, h0]
    · refine ⟨hv.bytes, ?_, ?_, hv.fits, ?_, hv.bytesOk, hv.small⟩
      · simp [hl]
      · show d.offset + 4 + 4 * t.length = eo
        omega
      · intro k hk
        have := hv.words (k + 1) (by simp; omega)
        simp only [List.getD_eq_getElem?_getD, List.getElem?_cons_succ] at this ⊢
        rw [← this]
        congr 1
        show d.offset + 4 + 4 * k = d.offset + 4 * (k + 1)
        omega
  · exact absurd (by omega) hb

theorem word_nil (d : DState) (hv : View B eo d []) : ∀ v d', word d ≠ (.ok v, d') := by
  have hl := hv.limit
  simp only [List.length_nil] at hl
  rcases word_spec d with ⟨_, hw⟩ | ⟨h0, _⟩ | ⟨h0, _⟩
  · rw [hw]; intro v d' h; cases h
  · exact absurd hl h0
  · exact absurd hl h0

/-! ### bytes of a view -/

theorem le32_bytes (b0 b1 b2 b3 : Nat) (h0 : b0 < 256) (h1 : b1 < 256) (h2 : b2 < 256) (h3 : b3 < 256) :
    Spec.wordBytes (b0 + 256 * b1 + 65536 * b2 + 16777216 * b3) = [b0, b1, b2, b3] := by
  simp only [Spec.wordBytes, List.cons.injEq, and_true]
  refine ⟨by omega, by omega, by omega, by omega⟩

/-- the bytes the words of a view occupy -/
theorem view_bytes : ∀ (ws : List Nat) (bytes : List Nat) (off : Nat), off + 4 * ws.length ≤ bytes.length →
    (∀ k, k < ws.length → le32 bytes (off + 4 * k) = ws.getD k 0) → (∀ b ∈ bytes, b < 256) →
    (bytes.drop off).take (4 * ws.length) = ws.flatMap Spec.wordBytes
  | [], bytes, off, _, _, _ => by simp
  | w :: t, bytes, off, ha, hw, hb => by
    simp only [List.length_cons] at ha
    have ih := view_bytes t bytes (off + 4) (by omega)
      (by intro k hk
          have := hw (k + 1) (by simp; omega)
          simp only [List.getD_eq_getElem?_getD, List.getElem?_cons_succ] at this ⊢
          rw [← this]; congr 1; omega) hb
    have h0 := hw 0 (by simp)
    simp only [Nat.mul_zero, Nat.add_zero, List.getD_eq_getElem?_getD, List.getElem?_cons_zero, Option.getD_some] at h0
    have i0 : off < bytes.length := by omega
    have i1 : off + 1 < bytes.length := by omega
    have i2 : off + 2 < bytes.length := by omega
    have i3 : off + 3 < bytes.length := by omega
    have e : w = bytes[off] + 256 * bytes[off + 1] + 65536 * bytes[off + 2] + 16777216 * bytes[off + 3] := by
      rw [← h0]; simp [le32, List.getD_eq_getElem?_getD, List.getElem?_eq_getElem, i0, i1, i2, i3]
    have hwb : Spec.wordBytes w = [bytes[off], bytes[off + 1], bytes[off + 2], bytes[off + 3]] := by
      rw [e]
      exact le32_bytes _ _ _ _ (hb _ (List.getElem_mem i0)) (hb _ (List.getElem_mem i1)) (hb _ (List.getElem_mem i2))
        (hb _ (List.getElem_mem i3))
    have hd : bytes.drop off = bytes[off] :: bytes[off + 1] :: bytes[off + 2] :: bytes[off + 3] :: bytes.drop (off + 4) := by
      rw [List.drop_eq_getElem_cons i0, List.drop_eq_getElem_cons i1, List.drop_eq_getElem_cons i2, List.drop_eq_getElem_cons i3]
    rw [hd]
    have h4 : 4 * (t.length + 1) = (4 * t.length) + 4 := by omega
    simp only [List.length_cons, h4, List.take_succ_cons, List.flatMap_cons, hwb, List.cons_append, List.nil_append, ih]

/-! ### strings -/

/-- `Decoder::string` from a view is the specification's `str` on the viewed words -/
theorem string_view (d : DState) (ws : List Nat) (hv : View B eo d ws) :
    match Spec.str ws with
    | some (bs, rest) => ∃ d', DState.string d = (.ok bs, d') ∧ View B eo d' rest
    | none => ∀ bs d', DState.string d ≠ (.ok bs, d') := by
  have hl := hv.limit
  have ha := hv.avail
  have hs : d.bytes.length < 2 ^ 63 := hv.isSmall
  have hst := hv.stop
  have hB := view_bytes ws d.bytes d.offset ha hv.words' hv.bytesOk'
  have hoff : d.offset ≤ d.bytes.length := by omega
  have hum : usizeMax = 2 ^ 64 - 1 := rfl
  unfold DState.string Spec.str
  simp only [hoff, if_true]
  have hrl : (d.bytes.drop d.offset).length = d.bytes.length - d.offset := by simp
  have hwin : strWindow d.limit (d.bytes.drop d.offset).length = 4 * ws.length := by
    rw [hl]; simp only [strWindow]; omega
  rw [hwin]
  have hn : min (4 * ws.length) (d.bytes.drop d.offset).length = 4 * ws.length := by rw [hrl]; omega
  rw [hn]
  have hn' : ¬ (4 * ws.length > (d.bytes.drop d.offset).length) := by rw [hrl]; omega
  simp only [hn', if_false]
  rw [hB]
  have hBl : (ws.flatMap Spec.wordBytes).length = 4 * ws.length := by
    rw [← hB, List.length_take, hrl]; omega
  generalize ws.flatMap Spec.wordBytes = B at hBl ⊢
  cases hf : B.findIdx? (· == 0) with
  | none =>
    dsimp only
    intro bs d' h
    rw [hl] at h
    dsimp only at h
    split at h <;> cases h
  | some nul =>
    obtain ⟨hnl, _, _⟩ := List.findIdx?_eq_some_iff_getElem.1 hf
    dsimp only
    have c1 : ¬ ((nul / 4 + 1) * 4 > usizeMax) := by omega
    have c2 : ¬ ((nul / 4 + 1) * 4 > B.length) := by omega
    simp only [c1, c2, if_false]
    by_cases c3 : validUtf8 (B.take nul) = true
    · simp only [c3, Bool.not_true, Bool.false_eq_true, if_false, if_true]
      have c4 : ¬ (d.offset + (nul / 4 + 1) * 4 > usizeMax) := by omega
      simp only [c4, if_false]
      rw [hl]
      dsimp only
      have hc : ¬ (ws.length < nul / 4 + 1) := by omega
      simp only [hc, if_false]
      refine ⟨_, rfl, hv.bytes, ?_, ?_, hv.fits, ?_, hv.bytesOk, hv.small⟩
      · simp only [List.length_drop]
      · show d.offset + (nul / 4 + 1) * 4 + 4 * (ws.drop (nul / 4 + 1)).length = eo
        simp only [List.length_drop]; omega
      · intro k hk
        simp only [List.length_drop] at hk
        have := hv.words (k + (nul / 4 + 1)) (by omega)
        simp only [List.getD_eq_getElem?_getD, List.getElem?_drop] at this ⊢
        rw [Nat.add_comm (nul / 4 + 1) k, ← this]
        congr 1
        show d.offset + (nul / 4 + 1) * 4 + 4 * k = d.offset + 4 * (k + (nul / 4 + 1))
        omega
    · have c3' : validUtf8 (B.take nul) = false := by simpa using c3
      simp only [c3', Bool.not_false, if_true, Bool.false_eq_true, if_false]
      intro bs d' h; cases h

/-! ### typed requests -/

theorem enum_cons (E : EnumSpec) (ev : Nat) (d : DState) (w : Nat) (t : List Nat) (hv : View B eo d (w :: t)) :
    ∃ d', View B eo d' t ∧ (∀ v, E.fromU32 w = some v → DState.enum E ev d = (.ok v, d')) ∧
      (E.fromU32 w = none → ∀ v d'', DState.enum E ev d ≠ (.ok v, d'')) := by
  obtain ⟨d', hw, hv'⟩ := word_cons d w t hv
  refine ⟨d', hv', ?_, ?_⟩
  · intro v hf
    unfold DState.enum
    rw [hw]; dsimp only; rw [hf]
  · intro hf v d'' h
    unfold DState.enum at h
    rw [hw] at h; dsimp only at h; rw [hf] at h; dsimp only at h
    split at h <;> cases h

theorem enum_nil (E : EnumSpec) (ev : Nat) (d : DState) (hv : View B eo d []) : ∀ v d', DState.enum E ev d ≠ (.ok v, d') := by
  intro v d' h
  unfold DState.enum at h
  cases hw : word d with
  | mk r d1 =>
    rw [hw] at h
    cases r with
    | ok x => exact word_nil d hv x d1 hw
    | err e => cases h
    | panic s => cases h

theorem mask_cons (M : MaskSpec) (ev : Nat) (d : DState) (w : Nat) (t : List Nat) (hv : View B eo d (w :: t)) :
    ∃ d', View B eo d' t ∧ (∀ v, M.fromBits w = some v → DState.mask M ev d = (.ok v, d')) ∧
      (M.fromBits w = none → ∀ v d'', DState.mask M ev d ≠ (.ok v, d'')) := by
  obtain ⟨d', hw, hv'⟩ := word_cons d w t hv
  refine ⟨d', hv', ?_, ?_⟩
  · intro v hf
    unfold DState.mask
    rw [hw]; dsimp only; rw [hf]
  · intro hf v d'' h
    unfold DState.mask at h
    rw [hw] at h; dsimp only at h; rw [hf] at h; dsimp only at h
    split at h <;> cases h

theorem mask_nil (M : MaskSpec) (ev : Nat) (d : DState) (hv : View B eo d []) : ∀ v d', DState.mask M ev d ≠ (.ok v, d') := by
  intro v d' h
  unfold DState.mask at h
  cases hw : word d with
  | mk r d1 =>
    rw [hw] at h
    cases r with
    | ok x => exact word_nil d hv x d1 hw
    | err e => cases h
    | panic s => cases h

/-! ### elements -/

theorem decodeElem_ref (G : Tables) (e : Elem) (d : DState) (ws : List Nat) (hv : View B eo d ws) :
    Refines B eo (decodeElem G e d) (Spec.elem G e ws) := by
  unfold decodeElem Spec.elem Refines
  by_cases h0 : (e.dec == 0) = true
  · simp only [h0, if_true]
    cases ws with
    | nil =>
      dsimp only
      intro x hx
      cases hE : G.enums[e.ix]? with
      | none => rw [hE] at hx; cases hx
      | some E =>
        rw [hE] at hx
        dsimp only at hx
        cases hr : DState.enum E e.ev d with
        | mk r d1 =>
          rw [hr] at hx
          cases r with
          | ok v => exact enum_nil E e.ev d hv v d1 hr
          | err _ => cases hx
          | panic _ => cases hx
    | cons w t =>
      dsimp only
      cases hE : G.enums[e.ix]? with
      | none => dsimp only; intro x hx; cases hx
      | some E =>
        dsimp only
        obtain ⟨d', hv', hsome, hnone⟩ := enum_cons E e.ev d w t hv
        cases hf : E.fromU32 w with
        | some v => dsimp only; rw [hsome v hf]; exact ⟨rfl, hv'⟩
        | none =>
          dsimp only
          intro x hx
          cases hr : DState.enum E e.ev d with
          | mk r d1 =>
            rw [hr] at hx
            cases r with
            | ok v => exact hnone hf v d1 hr
            | err _ => cases hx
            | panic _ => cases hx
  · simp only [h0, Bool.false_eq_true, if_false]
    by_cases h1 : (e.dec == 1) = true
    · simp only [h1, if_true]
      cases ws with
      | nil =>
        dsimp only
        intro x hx
        cases hM : G.masks[e.ix]? with
        | none => rw [hM] at hx; cases hx
        | some M =>
          rw [hM] at hx
          dsimp only at hx
          cases hr : DState.mask M e.ev d with
          | mk r d1 =>
            rw [hr] at hx
            cases r with
            | ok v => exact mask_nil M e.ev d hv v d1 hr
            | err _ => cases hx
            | panic _ => cases hx
      | cons w t =>
        dsimp only
        cases hM : G.masks[e.ix]? with
        | none => dsimp only; intro x hx; cases hx
        | some M =>
          dsimp only
          obtain ⟨d', hv', hsome, hnone⟩ := mask_cons M e.ev d w t hv
          cases hf : M.fromBits w with
          | some v => dsimp only; rw [hsome v hf]; exact ⟨rfl, hv'⟩
          | none =>
            dsimp only
            intro x hx
            cases hr : DState.mask M e.ev d with
            | mk r d1 =>
              rw [hr] at hx
              cases r with
              | ok v => exact hnone hf v d1 hr
              | err _ => cases hx
              | panic _ => cases hx
    · simp only [h1, Bool.false_eq_true, if_false]
      by_cases h2 : (e.dec == 2) = true
      · simp only [h2, if_true]
        cases ws with
        | nil =>
          dsimp only
          intro x hx
          cases hr : word d with
          | mk r d1 =>
            rw [hr] at hx
            cases r with
            | ok v => exact word_nil d hv v d1 hr
            | err _ => cases hx
            | panic _ => cases hx
        | cons w t =>
          dsimp only
          obtain ⟨d', hw, hv'⟩ := word_cons d w t hv
          rw [hw]
          exact ⟨rfl, hv'⟩
      · simp only [h2, Bool.false_eq_true, if_false]
        have hs := string_view d ws hv
        cases hstr : Spec.str ws with
        | none =>
          rw [hstr] at hs
          dsimp only at hs ⊢
          intro x hx
          cases hr : DState.string d with
          | mk r d1 =>
            rw [hr] at hx
            cases r with
            | ok bs => exact hs bs d1 hr
            | err _ => cases hx
            | panic _ => cases hx
        | some p =>
          obtain ⟨bs, rest⟩ := p
          rw [hstr] at hs
          dsimp only at hs ⊢
          obtain ⟨d', hd, hv'⟩ := hs
          rw [hd]
          exact ⟨rfl, hv'⟩

theorem decodeElems_ref (G : Tables) : ∀ (es : List Elem) (d : DState) (ws : List Nat), View B eo d ws →
    Refines B eo (decodeElems G es d) (Spec.elems G es ws)
  | [], d, ws, hv => by simp only [decodeElems, Spec.elems, Refines]; exact ⟨trivial, hv⟩
  | e :: es, d, ws, hv => by
    have h1 := decodeElem_ref G e d ws hv
    unfold decodeElems Spec.elems
    cases hs : Spec.elem G e ws with
    | none =>
      rw [hs] at h1
      simp only [Refines] at h1 ⊢
      intro x hx
      cases hr : decodeElem G e d with
      | mk r d1 =>
        rw [hr] at hx h1
        cases r with
        | ok o => exact h1 o rfl
        | err _ => cases hx
        | panic _ => cases hx
    | some p =>
      obtain ⟨o, t⟩ := p
      rw [hs] at h1
      simp only [Refines] at h1
      obtain ⟨hok, hv1⟩ := h1
      cases hr : decodeElem G e d with
      | mk r d1 =>
        rw [hr] at hok hv1
        dsimp only at hok hv1
        subst hok
        dsimp only
        have h2 := decodeElems_ref G es d1 t hv1
        cases hs2 : Spec.elems G es t with
        | none =>
          rw [hs2] at h2
          simp only [Refines] at h2 ⊢
          intro x hx
          cases hr2 : decodeElems G es d1 with
          | mk r2 d2 =>
            rw [hr2] at hx h2
            cases r2 with
            | ok os => exact h2 os rfl
            | err _ => cases hx
            | panic _ => cases hx
        | some q =>
          obtain ⟨os, t'⟩ := q
          rw [hs2] at h2
          simp only [Refines] at h2 ⊢
          obtain ⟨hok2, hv2⟩ := h2
          cases hr2 : decodeElems G es d1 with
          | mk r2 d2 =>
            rw [hr2] at hok2 hv2
            dsimp only at hok2 hv2
            subst hok2
            exact ⟨rfl, hv2⟩

/-! ### logical operands -/

theorem parseOperand_ref (G : Tables) (k : Nat) (d : DState) (ws : List Nat) (hv : View B eo d ws) :
    Refines B eo (parseOperand G k d) (Spec.operand G k ws) := by
  unfold parseOperand Spec.operand
  cases ha : G.kindActs[k]? with
  | none => exact Refines.mk_none (by intro x d' h; cases h)
  | some act =>
    cases act with
    | panics => exact Refines.mk_none (by intro x d' h; cases h)
    | elems es => exact decodeElems_ref G es d ws hv
    | maskParams e rows =>
      dsimp only
      have h1 := decodeElem_ref G e d ws hv
      cases hs : Spec.elem G e ws with
      | none =>
        rw [hs] at h1
        apply Refines.mk_none
        intro x d' hx
        cases hr : decodeElem G e d with
        | mk r d1 =>
          rw [hr] at hx
          cases r with
          | ok v => exact h1.of_none v d1 hr
          | err _ => cases hx
          | panic _ => cases hx
      | some p =>
        obtain ⟨v, t⟩ := p
        rw [hs] at h1
        obtain ⟨d1, hr, hv1⟩ := h1.of_some
        rw [hr]
        dsimp only
        have h2 := decodeElems_ref G (maskSel rows v.num) d1 t hv1
        cases hs2 : Spec.elems G (maskSel rows v.num) t with
        | none =>
          rw [hs2] at h2
          apply Refines.mk_none
          intro x d' hx
          cases hr2 : decodeElems G (maskSel rows v.num) d1 with
          | mk r2 d2 =>
            rw [hr2] at hx
            cases r2 with
            | ok os => exact h2.of_none os d2 hr2
            | err _ => cases hx
            | panic _ => cases hx
        | some q =>
          obtain ⟨os, t'⟩ := q
          rw [hs2] at h2
          obtain ⟨d2, hr2, hv2⟩ := h2.of_some
          rw [hr2]
          exact ⟨rfl, hv2⟩
    | enumParams e rows =>
      dsimp only
      have h1 := decodeElem_ref G e d ws hv
      cases hs : Spec.elem G e ws with
      | none =>
        rw [hs] at h1
        apply Refines.mk_none
        intro x d' hx
        cases hr : decodeElem G e d with
        | mk r d1 =>
          rw [hr] at hx
          cases r with
          | ok v => exact h1.of_none v d1 hr
          | err _ => cases hx
          | panic _ => cases hx
      | some p =>
        obtain ⟨v, t⟩ := p
        rw [hs] at h1
        obtain ⟨d1, hr, hv1⟩ := h1.of_some
        rw [hr]
        dsimp only
        have h2 := decodeElems_ref G (enumSel rows v.num) d1 t hv1
        cases hs2 : Spec.elems G (enumSel rows v.num) t with
        | none =>
          rw [hs2] at h2
          apply Refines.mk_none
          intro x d' hx
          cases hr2 : decodeElems G (enumSel rows v.num) d1 with
          | mk r2 d2 =>
            rw [hr2] at hx
            cases r2 with
            | ok os => exact h2.of_none os d2 hr2
            | err _ => cases hx
            | panic _ => cases hx
        | some q =>
          obtain ⟨os, t'⟩ := q
          rw [hs2] at h2
          obtain ⟨d2, hr2, hv2⟩ := h2.of_some
          rw [hr2]
          exact ⟨rfl, hv2⟩

/-! ### literals -/

theorem litOne_ref (G : Tables) (d : DState) (ws : List Nat) (hv : View B eo d ws) :
    Refines B eo (litOne G d) (Spec.lit1 G ws) := by
  unfold litOne Spec.lit1
  cases ws with
  | nil =>
    apply Refines.mk_none
    intro x d' hx
    cases hr : word d with
    | mk r d1 =>
      rw [hr] at hx
      cases r with
      | ok v => exact word_nil d hv v d1 hr
      | err _ => cases hx
      | panic _ => cases hx
  | cons w t =>
    obtain ⟨d', hw, hv'⟩ := word_cons d w t hv
    rw [hw]
    exact ⟨rfl, hv'⟩

theorem le32_lt (bytes : List Nat) (hb : ∀ b ∈ bytes, b < 256) (o : Nat) : le32 bytes o < 4294967296 := by
  have g : ∀ k, bytes.getD k 0 < 256 := by
    intro k
    rw [List.getD_eq_getElem?_getD]
    cases hk : bytes[k]? with
    | none => simp
    | some x => simpa using hb x (List.mem_of_getElem? hk)
  have := g o; have := g (o + 1); have := g (o + 2); have := g (o + 3)
  unfold le32
  omega

theorem view_word_lt {d : DState} {ws : List Nat} (hv : View B eo d ws) (k : Nat) (hk : k < ws.length) :
    ws.getD k 0 < 4294967296 := by
  rw [← hv.words k hk]
  exact le32_lt B hv.bytesOk _

theorem litTwo_ref (d : DState) (ws : List Nat) (hv : View B eo d ws) :
    Refines B eo (litTwo d) (Spec.lit2 ws) := by
  unfold litTwo bit64 Spec.lit2
  cases ws with
  | nil =>
    apply Refines.mk_none
    intro x d' hx
    cases hr : word d with
    | mk r d1 =>
      rw [hr] at hx
      cases r with
      | ok v => exact word_nil d hv v d1 hr
      | err _ => cases hx
      | panic _ => cases hx
  | cons lo t =>
    obtain ⟨d1, hw, hv1⟩ := word_cons d lo t hv
    rw [hw]
    dsimp only
    cases t with
    | nil =>
      apply Refines.mk_none
      intro x d' hx
      cases hr : word d1 with
      | mk r d2 =>
        rw [hr] at hx
        cases r with
        | ok v => exact word_nil d1 hv1 v d2 hr
        | err _ => cases hx
        | panic _ => cases hx
    | cons hi t' =>
      obtain ⟨d2, hw2, hv2⟩ := word_cons d1 hi t' hv1
      rw [hw2]
      have hlo := view_word_lt hv 0 (by simp)
      have hhi := view_word_lt hv 1 (by simp)
      simp only [List.getD_eq_getElem?_getD, List.getElem?_cons_zero, List.getElem?_cons_succ, Option.getD_some] at hlo hhi
      refine ⟨?_, hv2⟩
      show PRes.ok (Operand.q (hi * 4294967296 + lo)) = PRes.ok (Operand.q (hi % 4294967296 * 4294967296 + lo % 4294967296))
      rw [Nat.mod_eq_of_lt hlo, Nat.mod_eq_of_lt hhi]

theorem parseLiteral_ref (G : Tables) (τ : Tracker) (idx ty : Nat) (d : DState) (ws : List Nat) (hv : View B eo d ws) :
    Refines B eo (parseLiteral G τ idx ty d) (Spec.literal G τ ty ws) := by
  have bad : ∀ e : IErr, Refines B eo ((.err e, d) : PRes IErr Operand × DState) none :=
    fun e => Refines.mk_none (by intro x d' h; cases h)
  unfold parseLiteral Spec.literal
  cases hres : τ.resolve ty with
  | none => exact litOne_ref G d ws hv
  | some t =>
    cases t with
    | int w sg =>
      dsimp only
      split
      · exact litOne_ref G d ws hv
      · split
        · exact litTwo_ref d ws hv
        · exact bad _
    | float w =>
      dsimp only
      split
      · exact litOne_ref G d ws hv
      · split
        · exact litTwo_ref d ws hv
        · exact bad _

/-! ### OpSpecConstantOp -/

theorem view_limitReached {d : DState} {ws : List Nat} (hv : View B eo d ws) : d.limitReached = ws.isEmpty := by
  unfold DState.limitReached
  rw [hv.limit]
  cases ws <;> simp

/-- a successful `parse_operand` from a view leaves strictly fewer words -/
theorem operand_shrinks (G : Tables) (k : Nat) (hk : kindOk G k = true) (d d1 : DState) (ws t : List Nat) (os : List Operand)
    (hv : View B eo d ws) (hr : parseOperand G k d = (.ok os, d1)) (hv1 : View B eo d1 t) : t.length < ws.length := by
  obtain ⟨⟨f, _⟩, pr, _⟩ := parseOperand_safe G k d hv.inv hv.isSmall hk
  rw [hr] at f pr
  have hp : d.offset + 4 ≤ d1.offset := pr os rfl
  obtain ⟨l1, e1, b1⟩ := f.limited ws.length hv.limit
  have : d1.limit = some t.length := hv1.limit
  dsimp only at e1 b1
  rw [this] at e1
  cases e1
  omega

theorem parseMany_ref (G : Tables) (k : Nat) (hk : kindOk G k = true) : ∀ (n fuel fuel' : Nat) (d : DState) (ws : List Nat),
    ws.length ≤ n → n < fuel → n < fuel' → View B eo d ws →
    Refines B eo (parseMany G k fuel d) ((Spec.many G k fuel' ws).map (fun os => (os, [])))
  | n, 0, _, _, _, _, h, _, _ => absurd h (Nat.not_lt_zero _)
  | n, _ + 1, 0, _, _, _, _, h, _ => absurd h (Nat.not_lt_zero _)
  | n, f + 1, f' + 1, d, ws, hn, hf, hf', hv => by
    unfold parseMany Spec.many
    rw [view_limitReached hv]
    cases ws with
    | nil => simp only [List.isEmpty_nil, if_true, Option.map_some]; exact ⟨rfl, hv⟩
    | cons w t0 =>
      simp only [List.isEmpty_cons, Bool.false_eq_true, if_false]
      have h1 := parseOperand_ref G k d (w :: t0) hv
      cases hs : Spec.operand G k (w :: t0) with
      | none =>
        rw [hs] at h1
        apply Refines.mk_none
        intro x d' hx
        cases hr : parseOperand G k d with
        | mk r d1 =>
          rw [hr] at hx
          cases r with
          | ok os => exact h1.of_none os d1 hr
          | err _ => cases hx
          | panic _ => cases hx
      | some p =>
        obtain ⟨os, t⟩ := p
        rw [hs] at h1
        obtain ⟨d1, hr, hv1⟩ := h1.of_some
        rw [hr]
        dsimp only
        have hlt := operand_shrinks G k hk d d1 (w :: t0) t os hv hr hv1
        simp only [List.length_cons] at hlt hn
        have ih := parseMany_ref G k hk (n - 1) f f' d1 t (by omega) (by omega) (by omega) hv1
        cases hs2 : Spec.many G k f' t with
        | none =>
          rw [hs2] at ih
          simp only [Option.map_none] at ih ⊢
          apply Refines.mk_none
          intro x d' hx
          cases hr2 : parseMany G k f d1 with
          | mk r2 d2 =>
            rw [hr2] at hx
            cases r2 with
            | ok more => exact ih.of_none more d2 hr2
            | err _ => cases hx
            | panic _ => cases hx
        | some more =>
          rw [hs2] at ih
          simp only [Option.map_some] at ih ⊢
          obtain ⟨d2, hr2, hv2⟩ := ih.of_some
          rw [hr2]
          exact ⟨rfl, hv2⟩

theorem parseNested_ref (G : Tables) : ∀ (ops : List (Nat × Nat)) (d : DState) (ws : List Nat),
    nestedOk G ops = true → View B eo d ws → Refines B eo (parseNested G ops d) (Spec.nested G ops ws)
  | [], d, ws, _, hv => by simp only [parseNested, Spec.nested, Refines]; exact ⟨trivial, hv⟩
  | (k, q) :: rest, d, ws, hok, hv => by
    simp only [nestedOk, List.all_cons, Bool.and_eq_true] at hok
    have hrest : nestedOk G rest = true := hok.2
    unfold parseNested Spec.nested
    by_cases hres : (k == G.kIdResultType || k == G.kIdResult) = true
    · simp only [hres, if_true]
      exact parseNested_ref G rest d ws hrest hv
    · simp only [hres, Bool.false_eq_true, if_false]
      have hk : kindOk G k = true := by
        have := hok.1
        simp only [Bool.or_eq_true] at this hres
        rcases this with (h | h) | h
        · exact absurd (Or.inl h) hres
        · exact absurd (Or.inr h) hres
        · exact h
      -- the occurrence(s) of this logical operand
      have hhere : Refines B eo
          (if q == 0 then parseOperand G k d
           else if q == 1 then (if d.limitReached then (.ok [], d) else parseOperand G k d)
           else parseMany G k ((d.limit.getD 0) + 1) d)
          (if q == 0 then Spec.operand G k ws
           else if q == 1 then (if ws.isEmpty then some ([], ws) else Spec.operand G k ws)
           else (match Spec.many G k (ws.length + 1) ws with | some os => some (os, []) | none => none)) := by
        split
        · exact parseOperand_ref G k d ws hv
        · split
          · rw [view_limitReached hv]
            split
            · exact ⟨rfl, hv⟩
            · exact parseOperand_ref G k d ws hv
          · have := parseMany_ref G k hk ws.length (ws.length + 1) (ws.length + 1) d ws (Nat.le_refl _) (by omega) (by omega) hv
            rw [hv.limit]
            simp only [Option.getD_some]
            cases hm : Spec.many G k (ws.length + 1) ws with
            | none => rw [hm] at this; exact this
            | some os => rw [hm] at this; exact this
      generalize hg : (if q == 0 then parseOperand G k d
           else if q == 1 then (if d.limitReached then (.ok [], d) else parseOperand G k d)
           else parseMany G k ((d.limit.getD 0) + 1) d) = here at hhere
      generalize hg' : (if q == 0 then Spec.operand G k ws
           else if q == 1 then (if ws.isEmpty then some ([], ws) else Spec.operand G k ws)
           else (match Spec.many G k (ws.length + 1) ws with | some os => some (os, []) | none => none)) = shere at hhere
      cases shere with
      | none =>
        apply Refines.mk_none
        intro x d' hx
        obtain ⟨r, d1⟩ := here
        cases r with
        | ok os => exact hhere.of_none os d1 rfl
        | err _ => cases hx
        | panic _ => cases hx
      | some p =>
        obtain ⟨os, t⟩ := p
        obtain ⟨d1, hr, hv1⟩ := hhere.of_some
        rw [hr]
        dsimp only
        have ih := parseNested_ref G rest d1 t hrest hv1
        cases hs2 : Spec.nested G rest t with
        | none =>
          rw [hs2] at ih
          apply Refines.mk_none
          intro x d' hx
          cases hr2 : parseNested G rest d1 with
          | mk r2 d2 =>
            rw [hr2] at hx
            cases r2 with
            | ok more => exact ih.of_none more d2 hr2
            | err _ => cases hx
            | panic _ => cases hx
        | some q2 =>
          obtain ⟨more, t'⟩ := q2
          rw [hs2] at ih
          obtain ⟨d2, hr2, hv2⟩ := ih.of_some
          rw [hr2]
          exact ⟨rfl, hv2⟩

theorem parseSpecConstantOp_ref (G : Tables) (hc : coreKindsOk G = true) (idx : Nat) (d : DState) (ws : List Nat)
    (hv : View B eo d ws) : Refines B eo (parseSpecConstantOp G idx d) (Spec.specOp G ws) := by
  unfold parseSpecConstantOp Spec.specOp
  cases ws with
  | nil =>
    apply Refines.mk_none
    intro x d' hx
    cases hr : word d with
    | mk r d1 =>
      rw [hr] at hx
      cases r with
      | ok v => exact word_nil d hv v d1 hr
      | err _ => cases hx
      | panic _ => cases hx
  | cons number t =>
    obtain ⟨d1, hw, hv1⟩ := word_cons d number t hv
    rw [hw]
    dsimp only
    generalize hg : Option.filter (fun e => !(e.ops.any (fun o => isCtxKind G o.1)))
      (if number ≤ 65535 then lookupOpcode G.core number else none) = g
    cases g with
    | none => exact Refines.mk_none (by intro x d' h; cases h)
    | some e =>
      dsimp only
      have hmem : e ∈ G.core ∧ (e.ops.any (fun o => isCtxKind G o.1)) = false := by
        rw [Option.filter_eq_some_iff] at hg
        obtain ⟨hlook, hp⟩ := hg
        split at hlook
        · exact ⟨(lookupOpcode_some _ _ _ hlook).1, by simpa using hp⟩
        · cases hlook
      have hnest : nestedOk G e.ops = true := by
        simp only [coreKindsOk, List.all_eq_true] at hc
        simp only [nestedOk, List.all_eq_true]
        intro o ho
        have h1 := hc e hmem.1 o ho
        have h2 : isCtxKind G o.1 = false := by
          have := hmem.2
          rw [List.any_eq_false] at this
          simpa using this o ho
        simp only [Bool.or_eq_true, h2, Bool.false_eq_true, or_false] at h1 ⊢
        exact h1
      have ih := parseNested_ref G e.ops d1 t hnest hv1
      cases hs2 : Spec.nested G e.ops t with
      | none =>
        rw [hs2] at ih
        apply Refines.mk_none
        intro x d' hx
        cases hr2 : parseNested G e.ops d1 with
        | mk r2 d2 =>
          rw [hr2] at hx
          cases r2 with
          | ok os => exact ih.of_none os d2 hr2
          | err _ => cases hx
          | panic _ => cases hx
      | some q2 =>
        obtain ⟨os, t'⟩ := q2
        rw [hs2] at ih
        obtain ⟨d2, hr2, hv2⟩ := ih.of_some
        rw [hr2]
        exact ⟨rfl, hv2⟩

/-! ### `parse_operands` -/

theorem parseOne_ref (G : Tables) (hc : coreKindsOk G = true) (τ : Tracker) (idx opcode k : Nat) (a : Acc) (d : DState)
    (ws : List Nat) (hv : View B eo d ws) :
    Refines B eo (parseOne G τ idx opcode k a d) (Spec.one G τ opcode k a ws) := by
  unfold parseOne Spec.one
  by_cases k1 : (k == G.kIdResultType) = true
  · simp only [k1, if_true]
    cases ws with
    | nil =>
      apply Refines.mk_none
      intro x d' hx
      cases hr : word d with
      | mk r d1 =>
        rw [hr] at hx
        cases r with
        | ok v => exact word_nil d hv v d1 hr
        | err _ => cases hx
        | panic _ => cases hx
    | cons w t =>
      obtain ⟨d', hw, hv'⟩ := word_cons d w t hv
      rw [hw]
      exact ⟨rfl, hv'⟩
  · simp only [k1, Bool.false_eq_true, if_false]
    by_cases k2 : (k == G.kIdResult) = true
    · simp only [k2, if_true]
      cases ws with
      | nil =>
        apply Refines.mk_none
        intro x d' hx
        cases hr : word d with
        | mk r d1 =>
          rw [hr] at hx
          cases r with
          | ok v => exact word_nil d hv v d1 hr
          | err _ => cases hx
          | panic _ => cases hx
      | cons w t =>
        obtain ⟨d', hw, hv'⟩ := word_cons d w t hv
        rw [hw]
        exact ⟨rfl, hv'⟩
    · simp only [k2, Bool.false_eq_true, if_false]
      by_cases k3 : (k == G.kCtxNumber) = true
      · simp only [k3, if_true]
        by_cases hop : (!(opcode == G.opConstant || opcode == G.opSpecConstant)) = true
        · simp only [hop, if_true]
          exact Refines.mk_none (by intro x d' h; cases h)
        · simp only [hop, Bool.false_eq_true, if_false]
          cases hrt : a.rtype with
          | none => exact Refines.mk_none (by intro x d' h; cases h)
          | some ty =>
            dsimp only
            have h1 := parseLiteral_ref G τ idx ty d ws hv
            cases hs : Spec.literal G τ ty ws with
            | none =>
              rw [hs] at h1
              apply Refines.mk_none
              intro x d' hx
              cases hr : parseLiteral G τ idx ty d with
              | mk r d1 =>
                rw [hr] at hx
                cases r with
                | ok o => exact h1.of_none o d1 hr
                | err _ => cases hx
                | panic _ => cases hx
            | some p =>
              obtain ⟨o, t⟩ := p
              rw [hs] at h1
              obtain ⟨d1, hr, hv1⟩ := h1.of_some
              rw [hr]
              exact ⟨rfl, hv1⟩
      · simp only [k3, Bool.false_eq_true, if_false]
        by_cases k4 : (k == G.kPairLitId) = true
        · simp only [k4, if_true]
          by_cases hop : (opcode != G.opSwitch) = true
          · simp only [hop, if_true]
            exact Refines.mk_none (by intro x d' h; cases h)
          · simp only [hop, Bool.false_eq_true, if_false]
            cases hops : a.ops with
            | nil => exact Refines.mk_none (by intro x d' h; cases h)
            | cons o0 tl =>
              cases o0 with
              | q v => exact Refines.mk_none (by intro x d' h; cases h)
              | s b => exact Refines.mk_none (by intro x d' h; cases h)
              | w v sel =>
                dsimp only
                by_cases hv0 : (v != G.vIdRef) = true
                · simp only [hv0, if_true]
                  exact Refines.mk_none (by intro x d' h; cases h)
                · simp only [hv0, Bool.false_eq_true, if_false]
                  have h1 := parseLiteral_ref G τ idx sel d ws hv
                  cases hs : Spec.literal G τ sel ws with
                  | none =>
                    rw [hs] at h1
                    apply Refines.mk_none
                    intro x d' hx
                    cases hr : parseLiteral G τ idx sel d with
                    | mk r d1 =>
                      rw [hr] at hx
                      cases r with
                      | ok o => exact h1.of_none o d1 hr
                      | err _ => cases hx
                      | panic _ => cases hx
                  | some p =>
                    obtain ⟨lit, t⟩ := p
                    rw [hs] at h1
                    obtain ⟨d1, hr, hv1⟩ := h1.of_some
                    rw [hr]
                    dsimp only
                    cases t with
                    | nil =>
                      apply Refines.mk_none
                      intro x d' hx
                      cases hr2 : word d1 with
                      | mk r2 d2 =>
                        rw [hr2] at hx
                        cases r2 with
                        | ok v2 => exact word_nil d1 hv1 v2 d2 hr2
                        | err _ => cases hx
                        | panic _ => cases hx
                    | cons tgt t' =>
                      obtain ⟨d2, hw2, hv2⟩ := word_cons d1 tgt t' hv1
                      rw [hw2]
                      exact ⟨rfl, hv2⟩
        · simp only [k4, Bool.false_eq_true, if_false]
          by_cases k5 : (k == G.kSpecOp) = true
          · simp only [k5, if_true]
            have h1 := parseSpecConstantOp_ref G hc idx d ws hv
            cases hs : Spec.specOp G ws with
            | none =>
              rw [hs] at h1
              apply Refines.mk_none
              intro x d' hx
              cases hr : parseSpecConstantOp G idx d with
              | mk r d1 =>
                rw [hr] at hx
                cases r with
                | ok os => exact h1.of_none os d1 hr
                | err _ => cases hx
                | panic _ => cases hx
            | some p =>
              obtain ⟨os, t⟩ := p
              rw [hs] at h1
              obtain ⟨d1, hr, hv1⟩ := h1.of_some
              rw [hr]
              exact ⟨rfl, hv1⟩
          · simp only [k5, Bool.false_eq_true, if_false]
            have h1 := parseOperand_ref G k d ws hv
            cases hs : Spec.operand G k ws with
            | none =>
              rw [hs] at h1
              apply Refines.mk_none
              intro x d' hx
              cases hr : parseOperand G k d with
              | mk r d1 =>
                rw [hr] at hx
                cases r with
                | ok os => exact h1.of_none os d1 hr
                | err _ => cases hx
                | panic _ => cases hx
            | some p =>
              obtain ⟨os, t⟩ := p
              rw [hs] at h1
              obtain ⟨d1, hr, hv1⟩ := h1.of_some
              rw [hr]
              exact ⟨rfl, hv1⟩

/-- the operand loop, fuel for fuel -/
theorem loop_ref (G : Tables) (hc : coreKindsOk G = true) (τ : Tracker) (idx opcode : Nat) :
    ∀ (fuel : Nat) (ops : List (Nat × Nat)) (a : Acc) (d : DState) (ws : List Nat), View B eo d ws →
    Refines B eo (parseOperandsLoop G τ idx opcode fuel ops a d) (Spec.loop G τ opcode fuel ops a ws)
  | 0, _, _, _, _, _ => by
    simp only [parseOperandsLoop, Spec.loop]
    exact Refines.mk_none (by intro x d' h; cases h)
  | fuel + 1, [], a, d, ws, hv => by
    simp only [parseOperandsLoop, Spec.loop]
    exact ⟨rfl, hv⟩
  | fuel + 1, (k, q) :: rest, a, d, ws, hv => by
    unfold parseOperandsLoop Spec.loop
    rw [view_limitReached hv]
    by_cases hne : (!ws.isEmpty) = true
    · simp only [hne, if_true]
      have h1 := parseOne_ref G hc τ idx opcode k a d ws hv
      cases hs : Spec.one G τ opcode k a ws with
      | none =>
        rw [hs] at h1
        apply Refines.mk_none
        intro x d' hx
        cases hr : parseOne G τ idx opcode k a d with
        | mk r d1 =>
          rw [hr] at hx
          cases r with
          | ok a1 => exact h1.of_none a1 d1 hr
          | err _ => cases hx
          | panic _ => cases hx
      | some p =>
        obtain ⟨a1, t⟩ := p
        rw [hs] at h1
        obtain ⟨d1, hr, hv1⟩ := h1.of_some
        rw [hr]
        dsimp only
        split
        · exact loop_ref G hc τ idx opcode fuel ((k, q) :: rest) a1 d1 t hv1
        · exact loop_ref G hc τ idx opcode fuel rest a1 d1 t hv1
    · simp only [hne, Bool.false_eq_true, if_false]
      split
      · exact Refines.mk_none (by intro x d' h; cases h)
      · exact ⟨rfl, hv⟩

/-! ### one instruction of the stream -/

/-- the decoder is between instructions: no limit, and `ws` are all the whole words from the offset to the end -/
structure SView (B : List Nat) (d : DState) (ws : List Nat) : Prop where
  bytes : d.bytes = B
  limit : d.limit = none
  fits : d.offset + 4 * ws.length ≤ B.length
  tail : B.length < d.offset + 4 * ws.length + 4
  words : ∀ k, k < ws.length → le32 B (d.offset + 4 * k) = ws.getD k 0
  bytesOk : ∀ b ∈ B, b < 256
  small : B.length < 2 ^ 63

/-- **the parser refines the grammar, one instruction.** From a state between instructions, for an instruction whose
declared extent lies inside the stream: `parse_inst` succeeds iff the recogniser accepts, with the same instruction,
and ends between instructions in front of the recogniser's remaining words. -/
theorem parseInst_ref (G : Tables) (hc : coreKindsOk G = true) (τ : Tracker) (idx : Nat) (d : DState) (w0 : Nat)
    (t : List Nat) (hv : SView B d (w0 :: t)) (hfit : w0 / 65536 - 1 ≤ t.length) :
    match Spec.inst G τ (w0 :: t) with
    | some (i, rest) => ∃ d', parseInst G τ idx d = (.ok i, d') ∧ SView B d' rest
    | none => ∀ i d', parseInst G τ idx d ≠ (.ok i, d') := by
  have hb := hv.bytes
  have hfits := hv.fits
  simp only [List.length_cons] at hfits
  have hw : word d = (.ok w0, { d with offset := d.offset + 4 }) := by
    rcases word_spec d with ⟨h0, _⟩ | ⟨_, _, hw⟩ | ⟨_, hb', _⟩
    · rw [hv.limit] at h0; cases h0
    · have h0 := hv.words 0 (by simp)
      simp only [Nat.mul_zero, Nat.add_zero, List.getD_eq_getElem?_getD, List.getElem?_cons_zero, Option.getD_some] at h0
      rw [hw, hb, h0, hv.limit]; rfl
    · rw [hb] at hb'; exact absurd (by omega) hb'
  unfold parseInst Spec.inst
  rw [hw]
  dsimp only
  by_cases hwc : (w0 / 65536 == 0) = true
  · simp only [hwc, if_true]
    intro i d' h; cases h
  · simp only [hwc, Bool.false_eq_true, if_false]
    have hwc0 : w0 / 65536 ≠ 0 := by simpa using hwc
    cases hlook : lookupOpcode G.core (w0 % 65536) with
    | none => dsimp only; intro i d' h; cases h
    | some ent =>
      dsimp only
      have hnl : ¬ (t.length < w0 / 65536 - 1) := by omega
      simp only [hnl, if_false]
      -- inside the instruction: a view of its operand words
      have hview : View B (d.offset + 4 + 4 * (w0 / 65536 - 1))
          (DState.setLimit (w0 / 65536 - 1) { d with offset := d.offset + 4 }) (t.take (w0 / 65536 - 1)) := by
        have hlen : (t.take (w0 / 65536 - 1)).length = w0 / 65536 - 1 := by rw [List.length_take]; omega
        refine ⟨hb, ?_, ?_, ?_, ?_, hv.bytesOk, hv.small⟩
        · simp [DState.setLimit, hlen]
        · simp only [DState.setLimit, hlen]
        · omega
        · intro k hk
          rw [hlen] at hk
          have := hv.words (k + 1) (by simp; omega)
          simp only [List.getD_eq_getElem?_getD, List.getElem?_cons_succ] at this
          simp only [DState.setLimit, List.getD_eq_getElem?_getD, List.getElem?_take, hk, if_true]
          rw [← this]
          congr 1
          omega
      have hl := loop_ref G hc τ idx ent.opcode (w0 / 65536 + ent.ops.length + 1) ent.ops ⟨none, none, []⟩ _ _ hview
      cases hs : Spec.loop G τ ent.opcode (w0 / 65536 + ent.ops.length + 1) ent.ops ⟨none, none, []⟩ (t.take (w0 / 65536 - 1)) with
      | none =>
        rw [hs] at hl
        dsimp only
        intro i d' hx
        cases hr : parseOperandsLoop G τ idx ent.opcode (w0 / 65536 + ent.ops.length + 1) ent.ops ⟨none, none, []⟩
            (DState.setLimit (w0 / 65536 - 1) { d with offset := d.offset + 4 }) with
        | mk r d3 =>
          rw [hr] at hx
          cases r with
          | ok a => exact hl.of_none a d3 hr
          | err _ => cases hx
          | panic _ => cases hx
      | some p =>
        obtain ⟨a, rest⟩ := p
        rw [hs] at hl
        obtain ⟨d3, hr, hv3⟩ := hl.of_some
        rw [hr]
        dsimp only
        rw [view_limitReached hv3]
        cases rest with
        | cons x xs =>
          simp only [List.isEmpty_cons, Bool.not_false, if_true]
          intro i d' h; cases h
        | nil =>
          simp only [List.isEmpty_nil, Bool.not_true, Bool.false_eq_true, if_false]
          refine ⟨_, rfl, ?_⟩
          have hst := hv3.stop
          simp only [List.length_nil, Nat.mul_zero, Nat.add_zero] at hst
          have htail := hv.tail
          simp only [List.length_cons] at htail
          refine ⟨hv3.bytes, rfl, ?_, ?_, ?_, hv.bytesOk, hv.small⟩
          · show d3.offset + 4 * (t.drop (w0 / 65536 - 1)).length ≤ B.length
            rw [hst, List.length_drop]; omega
          · show B.length < d3.offset + 4 * (t.drop (w0 / 65536 - 1)).length + 4
            rw [hst, List.length_drop]; omega
          · intro k hk
            rw [List.length_drop] at hk
            have := hv.words (k + (w0 / 65536 - 1) + 1) (by simp; omega)
            simp only [List.getD_eq_getElem?_getD, List.getElem?_cons_succ] at this
            show le32 B (d3.offset + 4 * k) = (t.drop (w0 / 65536 - 1)).getD k 0
            simp only [List.getD_eq_getElem?_getD, List.getElem?_drop]
            rw [Nat.add_comm (w0 / 65536 - 1) k, ← this, hst]
            congr 1
            omega

/-! ### successful paths account exactly for the limit -/

/-- on a successful path every unit of limit charged is a word consumed: the end position implied by the limit stays put -/
structure Keeps (d d' : DState) : Prop where
  bytes : d'.bytes = d.bytes
  inv : C11.Inv d → C11.Inv d'
  mono : d.offset ≤ d'.offset
  pos : ∀ l, d.limit = some l → ∃ l', d'.limit = some l' ∧ d'.offset + 4 * l' = d.offset + 4 * l

theorem Keeps.refl (d : DState) : Keeps d d := ⟨rfl, id, Nat.le_refl _, fun l h => ⟨l, h, rfl⟩⟩

theorem Keeps.trans {a b c : DState} (h1 : Keeps a b) (h2 : Keeps b c) : Keeps a c :=
  ⟨h2.bytes.trans h1.bytes, fun h => h2.inv (h1.inv h), Nat.le_trans h1.mono h2.mono, fun l hl => by
    obtain ⟨l1, e1, p1⟩ := h1.pos l hl
    obtain ⟨l2, e2, p2⟩ := h2.pos l1 e1
    exact ⟨l2, e2, by omega⟩⟩

theorem Keeps.small {d d' : DState} (h : Keeps d d') (hs : Small d) : Small d' := by
  unfold Small at *; rw [h.bytes]; exact hs

theorem word_keeps (d : DState) (v : Nat) (d' : DState) (h : word d = (.ok v, d')) : Keeps d d' := by
  rcases word_spec d with ⟨_, hw⟩ | ⟨hl0, hb, hw⟩ | ⟨_, _, hw⟩ <;> rw [hw] at h
  · cases h
  · cases h
    refine ⟨rfl, fun _ => by unfold C11.Inv; simpa using hb, by simp, ?_⟩
    intro l hl
    cases l with
    | zero => exact absurd hl hl0
    | succ l => exact ⟨l, by simp [hl], by simp; omega⟩
  · cases h

theorem string_keeps (d : DState) (hi : C11.Inv d) (hs : Small d) (bs : List Nat) (d' : DState)
    (h : DState.string d = (.ok bs, d')) : Keeps d d' := by
  obtain ⟨_, _, ok⟩ := string_spec d hi hs
  rw [h] at ok
  obtain ⟨nul, _, _, _, _, hoff, hin, hb, hlim, _⟩ := ok bs rfl
  dsimp only at hoff hin hb hlim
  refine ⟨hb, fun _ => by unfold C11.Inv; rw [hb]; exact hin, by omega, ?_⟩
  intro l hl
  obtain ⟨hle, hl'⟩ := hlim l hl
  exact ⟨_, hl', by omega⟩

theorem enum_keeps (E : EnumSpec) (ev : Nat) (d : DState) (v : Nat) (d' : DState) (h : DState.enum E ev d = (.ok v, d')) :
    Keeps d d' := by
  unfold DState.enum at h
  cases hw : word d with
  | mk r d1 =>
    rw [hw] at h
    cases r with
    | ok w =>
      dsimp only at h
      cases hf : E.fromU32 w with
      | some x => rw [hf] at h; cases h; exact word_keeps d w _ hw
      | none => rw [hf] at h; dsimp only at h; split at h <;> cases h
    | err _ => cases h
    | panic _ => cases h

theorem mask_keeps (M : MaskSpec) (ev : Nat) (d : DState) (v : Nat) (d' : DState) (h : DState.mask M ev d = (.ok v, d')) :
    Keeps d d' := by
  unfold DState.mask at h
  cases hw : word d with
  | mk r d1 =>
    rw [hw] at h
    cases r with
    | ok w =>
      dsimp only at h
      cases hf : M.fromBits w with
      | some x => rw [hf] at h; cases h; exact word_keeps d w _ hw
      | none => rw [hf] at h; dsimp only at h; split at h <;> cases h
    | err _ => cases h
    | panic _ => cases h

theorem decodeElem_keeps (G : Tables) (e : Elem) (d : DState) (hi : C11.Inv d) (hs : Small d) (o : Operand) (d' : DState)
    (h : decodeElem G e d = (.ok o, d')) : Keeps d d' := by
  unfold decodeElem at h
  split at h
  · split at h
    · rename_i E _
      cases hr : DState.enum E e.ev d with
      | mk r d1 =>
        rw [hr] at h
        cases r with
        | ok v => cases h; exact enum_keeps E e.ev d v _ hr
        | err _ => cases h
        | panic _ => cases h
    · cases h
  · split at h
    · split at h
      · rename_i M _
        cases hr : DState.mask M e.ev d with
        | mk r d1 =>
          rw [hr] at h
          cases r with
          | ok v => cases h; exact mask_keeps M e.ev d v _ hr
          | err _ => cases h
          | panic _ => cases h
      · cases h
    · split at h
      · cases hw : word d with
        | mk r d1 =>
          rw [hw] at h
          cases r with
          | ok w => cases h; exact word_keeps d w _ hw
          | err _ => cases h
          | panic _ => cases h
      · cases hw : DState.string d with
        | mk r d1 =>
          rw [hw] at h
          cases r with
          | ok bs => cases h; exact string_keeps d hi hs bs _ hw
          | err _ => cases h
          | panic _ => cases h

theorem decodeElems_keeps (G : Tables) : ∀ (es : List Elem) (d : DState), C11.Inv d → Small d → ∀ (os : List Operand)
    (d' : DState), decodeElems G es d = (.ok os, d') → Keeps d d'
  | [], d, _, _, os, d', h => by simp only [decodeElems] at h; cases h; exact Keeps.refl d
  | e :: es, d, hi, hs, os, d', h => by
    unfold decodeElems at h
    cases hr : decodeElem G e d with
    | mk r d1 =>
      rw [hr] at h
      cases r with
      | ok o =>
        have k1 := decodeElem_keeps G e d hi hs o d1 hr
        dsimp only at h
        cases hr2 : decodeElems G es d1 with
        | mk r2 d2 =>
          rw [hr2] at h
          cases r2 with
          | ok os' => cases h; exact k1.trans (decodeElems_keeps G es d1 (k1.inv hi) (k1.small hs) os' _ hr2)
          | err _ => cases h
          | panic _ => cases h
      | err _ => cases h
      | panic _ => cases h

theorem parseOperand_keeps (G : Tables) (k : Nat) (d : DState) (hi : C11.Inv d) (hs : Small d) (os : List Operand)
    (d' : DState) (h : parseOperand G k d = (.ok os, d')) : Keeps d d' := by
  unfold parseOperand at h
  split at h
  · cases h
  · cases h
  · exact decodeElems_keeps G _ d hi hs os d' h
  · rename_i e rows _
    cases hr : decodeElem G e d with
    | mk r d1 =>
      rw [hr] at h
      cases r with
      | ok v =>
        have k1 := decodeElem_keeps G e d hi hs v d1 hr
        dsimp only at h
        cases hr2 : decodeElems G (maskSel rows v.num) d1 with
        | mk r2 d2 =>
          rw [hr2] at h
          cases r2 with
          | ok os' => cases h; exact k1.trans (decodeElems_keeps G _ d1 (k1.inv hi) (k1.small hs) os' _ hr2)
          | err _ => cases h
          | panic _ => cases h
      | err _ => cases h
      | panic _ => cases h
  · rename_i e rows _
    cases hr : decodeElem G e d with
    | mk r d1 =>
      rw [hr] at h
      cases r with
      | ok v =>
        have k1 := decodeElem_keeps G e d hi hs v d1 hr
        dsimp only at h
        cases hr2 : decodeElems G (enumSel rows v.num) d1 with
        | mk r2 d2 =>
          rw [hr2] at h
          cases r2 with
          | ok os' => cases h; exact k1.trans (decodeElems_keeps G _ d1 (k1.inv hi) (k1.small hs) os' _ hr2)
          | err _ => cases h
          | panic _ => cases h
      | err _ => cases h
      | panic _ => cases h

theorem litOne_keeps (G : Tables) (d : DState) (o : Operand) (d' : DState) (h : litOne G d = (.ok o, d')) : Keeps d d' := by
  unfold litOne at h
  cases hw : word d with
  | mk r d1 =>
    rw [hw] at h
    cases r with
    | ok w => cases h; exact word_keeps d w _ hw
    | err _ => cases h
    | panic _ => cases h

theorem litTwo_keeps (d : DState) (o : Operand) (d' : DState) (h : litTwo d = (.ok o, d')) : Keeps d d' := by
  unfold litTwo bit64 at h
  cases hw : word d with
  | mk r d1 =>
    rw [hw] at h
    cases r with
    | ok lo =>
      dsimp only at h
      cases hw2 : word d1 with
      | mk r2 d2 =>
        rw [hw2] at h
        cases r2 with
        | ok hi => cases h; exact (word_keeps d lo _ hw).trans (word_keeps d1 hi _ hw2)
        | err _ => cases h
        | panic _ => cases h
    | err _ => cases h
    | panic _ => cases h

theorem parseLiteral_keeps (G : Tables) (τ : Tracker) (idx ty : Nat) (d : DState) (o : Operand) (d' : DState)
    (h : parseLiteral G τ idx ty d = (.ok o, d')) : Keeps d d' := by
  unfold parseLiteral at h
  split at h
  · split at h
    · exact litOne_keeps G d o d' h
    · split at h
      · exact litTwo_keeps d o d' h
      · cases h
  · split at h
    · exact litOne_keeps G d o d' h
    · split at h
      · exact litTwo_keeps d o d' h
      · cases h
  · exact litOne_keeps G d o d' h

theorem parseMany_keeps (G : Tables) (k : Nat) : ∀ (fuel : Nat) (d : DState), C11.Inv d → Small d → ∀ (os : List Operand)
    (d' : DState), parseMany G k fuel d = (.ok os, d') → Keeps d d'
  | 0, d, _, _, os, d', h => by simp only [parseMany] at h; cases h
  | fuel + 1, d, hi, hs, os, d', h => by
    unfold parseMany at h
    split at h
    · cases h; exact Keeps.refl d
    · cases hr : parseOperand G k d with
      | mk r d1 =>
        rw [hr] at h
        cases r with
        | ok os1 =>
          have k1 := parseOperand_keeps G k d hi hs os1 d1 hr
          dsimp only at h
          cases hr2 : parseMany G k fuel d1 with
          | mk r2 d2 =>
            rw [hr2] at h
            cases r2 with
            | ok more => cases h; exact k1.trans (parseMany_keeps G k fuel d1 (k1.inv hi) (k1.small hs) more _ hr2)
            | err _ => cases h
            | panic _ => cases h
        | err _ => cases h
        | panic _ => cases h

theorem parseNested_keeps (G : Tables) : ∀ (ops : List (Nat × Nat)) (d : DState), C11.Inv d → Small d →
    ∀ (os : List Operand) (d' : DState), parseNested G ops d = (.ok os, d') → Keeps d d'
  | [], d, _, _, os, d', h => by simp only [parseNested] at h; cases h; exact Keeps.refl d
  | (k, q) :: rest, d, hi, hs, os, d', h => by
    unfold parseNested at h
    split at h
    · exact parseNested_keeps G rest d hi hs os d' h
    · have hhere : ∀ (r : PRes IErr (List Operand) × DState),
          r = (if q == 0 then parseOperand G k d
               else if q == 1 then (if d.limitReached then (.ok [], d) else parseOperand G k d)
               else parseMany G k ((d.limit.getD 0) + 1) d) → ∀ os1 d1, r = (.ok os1, d1) → Keeps d d1 := by
        intro r hr os1 d1 he
        subst hr
        split at he
        · exact parseOperand_keeps G k d hi hs os1 d1 he
        · split at he
          · split at he
            · cases he; exact Keeps.refl d
            · exact parseOperand_keeps G k d hi hs os1 d1 he
          · exact parseMany_keeps G k _ d hi hs os1 d1 he
      generalize hg : (if q == 0 then parseOperand G k d
               else if q == 1 then (if d.limitReached then (.ok [], d) else parseOperand G k d)
               else parseMany G k ((d.limit.getD 0) + 1) d) = here at h
      obtain ⟨r, d1⟩ := here
      cases r with
      | ok os1 =>
        have k1 := hhere _ hg.symm os1 d1 rfl
        dsimp only at h
        cases hr2 : parseNested G rest d1 with
        | mk r2 d2 =>
          rw [hr2] at h
          cases r2 with
          | ok more => cases h; exact k1.trans (parseNested_keeps G rest d1 (k1.inv hi) (k1.small hs) more _ hr2)
          | err _ => cases h
          | panic _ => cases h
      | err _ => cases h
      | panic _ => cases h

theorem parseSpecConstantOp_keeps (G : Tables) (idx : Nat) (d : DState) (hi : C11.Inv d) (hs : Small d) (os : List Operand)
    (d' : DState) (h : parseSpecConstantOp G idx d = (.ok os, d')) : Keeps d d' := by
  unfold parseSpecConstantOp at h
  cases hw : word d with
  | mk r d1 =>
    rw [hw] at h
    cases r with
    | err _ => cases h
    | panic _ => cases h
    | ok number =>
      have k1 := word_keeps d number d1 hw
      dsimp only at h
      split at h
      · rename_i e _
        cases hr2 : parseNested G e.ops d1 with
        | mk r2 d2 =>
          rw [hr2] at h
          cases r2 with
          | ok os' => cases h; exact k1.trans (parseNested_keeps G e.ops d1 (k1.inv hi) (k1.small hs) os' _ hr2)
          | err _ => cases h
          | panic _ => cases h
      · cases h

theorem parseOne_keeps (G : Tables) (τ : Tracker) (idx opcode k : Nat) (a : Acc) (d : DState) (hi : C11.Inv d)
    (hs : Small d) (a1 : Acc) (d' : DState) (h : parseOne G τ idx opcode k a d = (.ok a1, d')) : Keeps d d' := by
  unfold parseOne at h
  split at h
  · cases hw : word d with
    | mk r d1 =>
      rw [hw] at h
      cases r with
      | ok w => cases h; exact word_keeps d w _ hw
      | err _ => cases h
      | panic _ => cases h
  · split at h
    · cases hw : word d with
      | mk r d1 =>
        rw [hw] at h
        cases r with
        | ok w => cases h; exact word_keeps d w _ hw
        | err _ => cases h
        | panic _ => cases h
    · split at h
      · split at h
        · cases h
        · split at h
          · cases h
          · rename_i ty _
            cases hr : parseLiteral G τ idx ty d with
            | mk r d1 =>
              rw [hr] at h
              cases r with
              | ok o => cases h; exact parseLiteral_keeps G τ idx ty d o _ hr
              | err _ => cases h
              | panic _ => cases h
      · split at h
        · split at h
          · cases h
          · split at h
            · cases h
            · split at h
              · split at h
                · cases h
                · rename_i sel _ _
                  cases hr : parseLiteral G τ idx sel d with
                  | mk r d1 =>
                    rw [hr] at h
                    cases r with
                    | ok lit =>
                      have k1 := parseLiteral_keeps G τ idx sel d lit d1 hr
                      dsimp only at h
                      cases hw : word d1 with
                      | mk r2 d2 =>
                        rw [hw] at h
                        cases r2 with
                        | ok tgt => cases h; exact k1.trans (word_keeps d1 tgt _ hw)
                        | err _ => cases h
                        | panic _ => cases h
                    | err _ => cases h
                    | panic _ => cases h
              · cases h
        · split at h
          · cases hr : parseSpecConstantOp G idx d with
            | mk r d1 =>
              rw [hr] at h
              cases r with
              | ok os => cases h; exact parseSpecConstantOp_keeps G idx d hi hs os _ hr
              | err _ => cases h
              | panic _ => cases h
          · cases hr : parseOperand G k d with
            | mk r d1 =>
              rw [hr] at h
              cases r with
              | ok os => cases h; exact parseOperand_keeps G k d hi hs os _ hr
              | err _ => cases h
              | panic _ => cases h

theorem loop_keeps (G : Tables) (τ : Tracker) (idx opcode : Nat) : ∀ (fuel : Nat) (ops : List (Nat × Nat)) (a : Acc)
    (d : DState), C11.Inv d → Small d → ∀ (a' : Acc) (d' : DState),
    parseOperandsLoop G τ idx opcode fuel ops a d = (.ok a', d') → Keeps d d'
  | 0, _, _, _, _, _, _, _, h => by simp only [parseOperandsLoop] at h; cases h
  | fuel + 1, [], a, d, _, _, a', d', h => by simp only [parseOperandsLoop] at h; cases h; exact Keeps.refl d
  | fuel + 1, (k, q) :: rest, a, d, hi, hs, a', d', h => by
    unfold parseOperandsLoop at h
    split at h
    · cases hr : parseOne G τ idx opcode k a d with
      | mk r d1 =>
        rw [hr] at h
        cases r with
        | ok a1 =>
          have k1 := parseOne_keeps G τ idx opcode k a d hi hs a1 d1 hr
          dsimp only at h
          split at h
          · exact k1.trans (loop_keeps G τ idx opcode fuel _ a1 d1 (k1.inv hi) (k1.small hs) a' d' h)
          · exact k1.trans (loop_keeps G τ idx opcode fuel _ a1 d1 (k1.inv hi) (k1.small hs) a' d' h)
        | err _ => cases h
        | panic _ => cases h
    · split at h
      · cases h
      · cases h; exact Keeps.refl d

/-- **an instruction whose declared extent runs past the end of the stream is never accepted** -/
theorem parseInst_overrun (G : Tables) (τ : Tracker) (idx : Nat) (d : DState) (w0 : Nat) (t : List Nat)
    (hv : SView B d (w0 :: t)) (hover : t.length < w0 / 65536 - 1) : ∀ i d', parseInst G τ idx d ≠ (.ok i, d') := by
  intro i d' h
  have hb := hv.bytes
  have hfits := hv.fits
  have htail := hv.tail
  simp only [List.length_cons] at hfits htail
  have hw : word d = (.ok w0, { d with offset := d.offset + 4 }) := by
    rcases word_spec d with ⟨h0, _⟩ | ⟨_, _, hw⟩ | ⟨_, hb', _⟩
    · rw [hv.limit] at h0; cases h0
    · have h0 := hv.words 0 (by simp)
      simp only [Nat.mul_zero, Nat.add_zero, List.getD_eq_getElem?_getD, List.getElem?_cons_zero, Option.getD_some] at h0
      rw [hw, hb, h0, hv.limit]; rfl
    · rw [hb] at hb'; exact absurd (by omega) hb'
  unfold parseInst at h
  rw [hw] at h
  dsimp only at h
  split at h
  · cases h
  · split at h
    · rename_i ent _
      have hi2 : C11.Inv (DState.setLimit (w0 / 65536 - 1) { d with offset := d.offset + 4 }) := by
        unfold C11.Inv DState.setLimit; simp only; rw [hb]; omega
      have hs2 : Small (DState.setLimit (w0 / 65536 - 1) { d with offset := d.offset + 4 }) := by
        unfold Small DState.setLimit; simp only; rw [hb]; exact hv.small
      cases hr : parseOperandsLoop G τ idx ent.opcode (w0 / 65536 + ent.ops.length + 1) ent.ops ⟨none, none, []⟩
          (DState.setLimit (w0 / 65536 - 1) { d with offset := d.offset + 4 }) with
      | mk r d3 =>
        rw [hr] at h
        cases r with
        | ok a =>
          have kp := loop_keeps G τ idx ent.opcode _ _ _ _ hi2 hs2 a d3 hr
          dsimp only at h
          split at h
          · cases h
          · rename_i hlr
            obtain ⟨l3, hl3, hpos⟩ := kp.pos (w0 / 65536 - 1) rfl
            have hz : l3 = 0 := by
              unfold DState.limitReached at hlr
              rw [hl3] at hlr
              simpa using hlr
            have hi3 := kp.inv hi2
            unfold C11.Inv at hi3
            rw [kp.bytes] at hi3
            simp only [DState.setLimit] at hpos hi3
            rw [hb] at hi3
            subst hz
            omega
        | err _ => cases h
        | panic _ => cases h
    · cases h

/-! ### `Complete` is reported only at the end of the stream -/

/-- the routine does not fail with the end-of-stream marker -/
def NC {α : Type} (r : PRes IErr α × DState) : Prop := ∀ d', r ≠ (.err .complete, d')

theorem decodeElem_nc (G : Tables) (e : Elem) (d : DState) : NC (decodeElem G e d) := by
  intro d' h
  unfold decodeElem at h
  split at h
  · split at h
    · split at h <;> cases h
    · cases h
  · split at h
    · split at h
      · split at h <;> cases h
      · cases h
    · split at h
      · split at h <;> cases h
      · split at h <;> cases h

theorem decodeElems_nc (G : Tables) : ∀ (es : List Elem) (d : DState), NC (decodeElems G es d)
  | [], d => by intro d' h; simp only [decodeElems] at h; cases h
  | e :: es, d => by
    intro d' h
    unfold decodeElems at h
    cases hr : decodeElem G e d with
    | mk r d1 =>
      rw [hr] at h
      cases r with
      | ok o =>
        dsimp only at h
        cases hr2 : decodeElems G es d1 with
        | mk r2 d2 =>
          rw [hr2] at h
          cases r2 with
          | ok os => cases h
          | err x => dsimp only at h; cases h; exact decodeElems_nc G es d1 _ hr2
          | panic _ => cases h
      | err x => cases h; exact decodeElem_nc G e d _ hr
      | panic _ => cases h

theorem parseOperand_nc (G : Tables) (k : Nat) (d : DState) : NC (parseOperand G k d) := by
  intro d' h
  unfold parseOperand at h
  split at h
  · cases h
  · cases h
  · exact decodeElems_nc G _ d d' h
  · rename_i e rows _
    cases hr : decodeElem G e d with
    | mk r d1 =>
      rw [hr] at h
      cases r with
      | ok v =>
        dsimp only at h
        cases hr2 : decodeElems G (maskSel rows v.num) d1 with
        | mk r2 d2 =>
          rw [hr2] at h
          cases r2 with
          | ok os => cases h
          | err x => dsimp only at h; cases h; exact decodeElems_nc G _ d1 _ hr2
          | panic _ => cases h
      | err x => cases h; exact decodeElem_nc G e d _ hr
      | panic _ => cases h
  · rename_i e rows _
    cases hr : decodeElem G e d with
    | mk r d1 =>
      rw [hr] at h
      cases r with
      | ok v =>
        dsimp only at h
        cases hr2 : decodeElems G (enumSel rows v.num) d1 with
        | mk r2 d2 =>
          rw [hr2] at h
          cases r2 with
          | ok os => cases h
          | err x => dsimp only at h; cases h; exact decodeElems_nc G _ d1 _ hr2
          | panic _ => cases h
      | err x => cases h; exact decodeElem_nc G e d _ hr
      | panic _ => cases h

theorem parseLiteral_nc (G : Tables) (τ : Tracker) (idx ty : Nat) (d : DState) : NC (parseLiteral G τ idx ty d) := by
  have h1 : NC (litOne G d) := by
    intro d' h; unfold litOne at h; split at h <;> cases h
  have h2 : NC (litTwo d) := by
    intro d' h; unfold litTwo at h; split at h <;> cases h
  intro d' h
  unfold parseLiteral at h
  split at h
  · split at h
    · exact h1 d' h
    · split at h
      · exact h2 d' h
      · cases h
  · split at h
    · exact h1 d' h
    · split at h
      · exact h2 d' h
      · cases h
  · exact h1 d' h

theorem parseMany_nc (G : Tables) (k : Nat) : ∀ (fuel : Nat) (d : DState), NC (parseMany G k fuel d)
  | 0, d => by intro d' h; simp only [parseMany] at h; cases h
  | fuel + 1, d => by
    intro d' h
    unfold parseMany at h
    split at h
    · cases h
    · cases hr : parseOperand G k d with
      | mk r d1 =>
        rw [hr] at h
        cases r with
        | ok os =>
          dsimp only at h
          cases hr2 : parseMany G k fuel d1 with
          | mk r2 d2 =>
            rw [hr2] at h
            cases r2 with
            | ok more => cases h
            | err x => dsimp only at h; cases h; exact parseMany_nc G k fuel d1 _ hr2
            | panic _ => cases h
        | err x => dsimp only at h; cases h; exact parseOperand_nc G k d _ hr
        | panic _ => cases h

theorem parseNested_nc (G : Tables) : ∀ (ops : List (Nat × Nat)) (d : DState), NC (parseNested G ops d)
  | [], d => by intro d' h; simp only [parseNested] at h; cases h
  | (k, q) :: rest, d => by
    intro d' h
    unfold parseNested at h
    split at h
    · exact parseNested_nc G rest d d' h
    · have hhere : NC (if q == 0 then parseOperand G k d
               else if q == 1 then (if d.limitReached then (.ok [], d) else parseOperand G k d)
               else parseMany G k ((d.limit.getD 0) + 1) d) := by
        intro d'' he
        split at he
        · exact parseOperand_nc G k d d'' he
        · split at he
          · split at he
            · cases he
            · exact parseOperand_nc G k d d'' he
          · exact parseMany_nc G k _ d d'' he
      generalize (if q == 0 then parseOperand G k d
               else if q == 1 then (if d.limitReached then (.ok [], d) else parseOperand G k d)
               else parseMany G k ((d.limit.getD 0) + 1) d) = here at h hhere
      obtain ⟨r, d1⟩ := here
      cases r with
      | ok os =>
        dsimp only at h
        cases hr2 : parseNested G rest d1 with
        | mk r2 d2 =>
          rw [hr2] at h
          cases r2 with
          | ok more => cases h
          | err x => dsimp only at h; cases h; exact parseNested_nc G rest d1 _ hr2
          | panic _ => cases h
      | err x => dsimp only at h; cases h; exact hhere _ rfl
      | panic _ => cases h

theorem parseSpecConstantOp_nc (G : Tables) (idx : Nat) (d : DState) : NC (parseSpecConstantOp G idx d) := by
  intro d' h
  unfold parseSpecConstantOp at h
  cases hw : word d with
  | mk r d1 =>
    rw [hw] at h
    cases r with
    | err _ => cases h
    | panic _ => cases h
    | ok number =>
      dsimp only at h
      split at h
      · rename_i e _
        cases hr2 : parseNested G e.ops d1 with
        | mk r2 d2 =>
          rw [hr2] at h
          cases r2 with
          | ok os => cases h
          | err x => dsimp only at h; cases h; exact parseNested_nc G e.ops d1 _ hr2
          | panic _ => cases h
      · cases h

theorem parseOne_nc (G : Tables) (τ : Tracker) (idx opcode k : Nat) (a : Acc) (d : DState) :
    NC (parseOne G τ idx opcode k a d) := by
  intro d' h
  unfold parseOne at h
  split at h
  · split at h <;> cases h
  · split at h
    · split at h <;> cases h
    · split at h
      · split at h
        · cases h
        · split at h
          · cases h
          · rename_i ty _
            cases hr : parseLiteral G τ idx ty d with
            | mk r d1 =>
              rw [hr] at h
              cases r with
              | ok o => cases h
              | err x => cases h; exact parseLiteral_nc G τ idx ty d _ hr
              | panic _ => cases h
      · split at h
        · split at h
          · cases h
          · split at h
            · cases h
            · split at h
              · split at h
                · cases h
                · rename_i sel _ _
                  cases hr : parseLiteral G τ idx sel d with
                  | mk r d1 =>
                    rw [hr] at h
                    cases r with
                    | ok lit => dsimp only at h; split at h <;> cases h
                    | err x => cases h; exact parseLiteral_nc G τ idx sel d _ hr
                    | panic _ => cases h
              · cases h
        · split at h
          · cases hr : parseSpecConstantOp G idx d with
            | mk r d1 =>
              rw [hr] at h
              cases r with
              | ok os => cases h
              | err x => cases h; exact parseSpecConstantOp_nc G idx d _ hr
              | panic _ => cases h
          · cases hr : parseOperand G k d with
            | mk r d1 =>
              rw [hr] at h
              cases r with
              | ok os => cases h
              | err x => cases h; exact parseOperand_nc G k d _ hr
              | panic _ => cases h

theorem loop_nc (G : Tables) (τ : Tracker) (idx opcode : Nat) : ∀ (fuel : Nat) (ops : List (Nat × Nat)) (a : Acc)
    (d : DState), NC (parseOperandsLoop G τ idx opcode fuel ops a d)
  | 0, _, _, _ => by intro d' h; simp only [parseOperandsLoop] at h; cases h
  | fuel + 1, [], a, d => by intro d' h; simp only [parseOperandsLoop] at h; cases h
  | fuel + 1, (k, q) :: rest, a, d => by
    intro d' h
    unfold parseOperandsLoop at h
    split at h
    · cases hr : parseOne G τ idx opcode k a d with
      | mk r d1 =>
        rw [hr] at h
        cases r with
        | ok a1 =>
          dsimp only at h
          split at h
          · exact loop_nc G τ idx opcode fuel _ a1 d1 d' h
          · exact loop_nc G τ idx opcode fuel _ a1 d1 d' h
        | err x => dsimp only at h; cases h; exact parseOne_nc G τ idx opcode k a d _ hr
        | panic _ => cases h
    · split at h <;> cases h

/-- `parse_inst` reports the end of the stream only when no whole word is left -/
theorem parseInst_complete (G : Tables) (τ : Tracker) (idx : Nat) (d : DState) (w0 : Nat) (t : List Nat)
    (hv : SView B d (w0 :: t)) : ∀ d', parseInst G τ idx d ≠ (.err .complete, d') := by
  intro d' h
  have hb := hv.bytes
  have hfits := hv.fits
  simp only [List.length_cons] at hfits
  have hw : word d = (.ok w0, { d with offset := d.offset + 4 }) := by
    rcases word_spec d with ⟨h0, _⟩ | ⟨_, _, hw⟩ | ⟨_, hb', _⟩
    · rw [hv.limit] at h0; cases h0
    · have h0 := hv.words 0 (by simp)
      simp only [Nat.mul_zero, Nat.add_zero, List.getD_eq_getElem?_getD, List.getElem?_cons_zero, Option.getD_some] at h0
      rw [hw, hb, h0, hv.limit]; rfl
    · rw [hb] at hb'; exact absurd (by omega) hb'
  unfold parseInst at h
  rw [hw] at h
  dsimp only at h
  split at h
  · cases h
  · split at h
    · rename_i ent _
      cases hr : parseOperandsLoop G τ idx ent.opcode (w0 / 65536 + ent.ops.length + 1) ent.ops ⟨none, none, []⟩
          (DState.setLimit (w0 / 65536 - 1) { d with offset := d.offset + 4 }) with
      | mk r d3 =>
        rw [hr] at h
        cases r with
        | ok a => dsimp only at h; split at h <;> cases h
        | err x => dsimp only at h; cases h; exact loop_nc G τ idx ent.opcode _ _ _ _ _ hr
        | panic _ => cases h
    · cases h

/-- at the end of the stream (fewer than four bytes left) `parse_inst` reports `Complete` -/
theorem parseInst_end (G : Tables) (τ : Tracker) (idx : Nat) (d : DState) (hv : SView B d []) :
    ∃ d', parseInst G τ idx d = (.err .complete, d') := by
  have htail := hv.tail
  simp only [List.length_nil, Nat.mul_zero, Nat.add_zero] at htail
  unfold parseInst
  rcases word_spec d with ⟨h0, _⟩ | ⟨_, hb', _⟩ | ⟨_, _, hw⟩
  · rw [hv.limit] at h0; cases h0
  · rw [hv.bytes] at hb'; exact absurd hb' (by omega)
  · rw [hw]; exact ⟨_, rfl⟩

end Rspirv.Props.ParserSpec
