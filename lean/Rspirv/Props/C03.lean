import Rspirv.Props.ParserSpec
import Rspirv.Props.ParserErr
import Rspirv.Instances
/-!
# C03 — the parser accepts exactly the grammar and reports the first malformed instruction

`Rspirv.Model.Spec` is the grammar as a recogniser over word lists (no buffer, offsets, limits, error kinds or panics;
readable in a few minutes). `Props/ParserSpec.lean` shows that every routine of the parser model refines it. Here:

* `C03_loop` – from a state between instructions the parse loop delivers to a continuing consumer exactly the
  instructions `Spec.insts` recognises — in stream order, each once — then `finalize` iff the whole stream was
  recognised; otherwise it ends with an instruction-level error (never `Complete`) and never calls `finalize`;
* `C03_accept` – a binary is accepted iff it has a complete five-word header with the magic number and its instruction
  words are recognised to the end; `C03_trace` – the callback trace is `initialize, header, the recognised instructions
  (, finalize)`;
* `C03_header_*` – short or wrong headers.
What the error value carries (kind, instruction number, byte offset) is decided by the differential with its oracle
(truncation at every byte, substitution and word-count corruption at every instruction): `C03_partial` at that layer.
-/
namespace Rspirv.Props.C03
open Rspirv Rspirv.Model Rspirv.Model.DState Rspirv.Props.C11 Rspirv.Props.C04 Rspirv.Props.ParserSpec Rspirv.Props.ParserErr

theorem inst_shrinks (G : Tables) (τ : Tracker) (ws : List Nat) (i : Inst) (rest : List Nat)
    (h : Spec.inst G τ ws = some (i, rest)) : rest.length < ws.length := by
  unfold Spec.inst at h
  cases ws with
  | nil => cases h
  | cons w0 t =>
    dsimp only at h
    split at h
    · cases h
    · split at h
      · cases h
      · split at h
        · cases h
        · split at h
          · rename_i a _
            cases h
            simp only [List.length_drop, List.length_cons]; omega
          · cases h

theorem inst_overrun (G : Tables) (τ : Tracker) (w0 : Nat) (t : List Nat) (hover : t.length < w0 / 65536 - 1) :
    Spec.inst G τ (w0 :: t) = none := by
  unfold Spec.inst
  dsimp only
  split
  · rfl
  · split
    · rfl
    · simp [hover]

variable {B : List Nat}

theorem SView.inv {d : DState} {ws : List Nat} (h : SView B d ws) : C11.Inv d := by
  have := h.fits; unfold C11.Inv; rw [h.bytes]; omega

theorem SView.isSmall {d : DState} {ws : List Nat} (h : SView B d ws) : Small d := by
  unfold Small; rw [h.bytes]; exact h.small

/-- **C03 (the parse loop is the recogniser).** -/
theorem C03_loop (G : Tables) (hT : tablesSafe G = true) : ∀ (fuel : Nat) (τ : Tracker) (k idx : Nat) (d : DState)
    (tr : List Ev) (ws : List Nat), SView B d ws → ws.length < fuel →
    (parseLoop G (fun _ => .continue_) fuel τ k idx d tr).trace =
      tr.reverse ++ (Spec.insts G fuel τ ws).1.map Ev.inst ++ (if (Spec.insts G fuel τ ws).2 = [] then [Ev.fin] else []) ∧
    ((parseLoop G (fun _ => .continue_) fuel τ k idx d tr).result = .ok () ↔ (Spec.insts G fuel τ ws).2 = []) ∧
    ((Spec.insts G fuel τ ws).2 ≠ [] →
      ∃ e dF w0 t, (parseLoop G (fun _ => .continue_) fuel τ k idx d tr).result = .err (.inst e) ∧ e ≠ .complete ∧
        (Spec.insts G fuel τ ws).2 = w0 :: t ∧ SView B dF (w0 :: t) ∧
        ErrAt dF.offset (dF.offset + 4 * (w0 / 65536)) (idx + (Spec.insts G fuel τ ws).1.length + 1) e ∧
        ∃ τF d1, parseInst G τF (idx + (Spec.insts G fuel τ ws).1.length + 1) dF = (.err e, d1))
  | 0, _, _, _, _, _, _, _, h => absurd h (Nat.not_lt_zero _)
  | fuel + 1, τ, k, idx, d, tr, ws, hv, hf => by
    have hc : coreKindsOk G = true := by
      simp only [tablesSafe, Bool.and_eq_true] at hT; exact hT.1
    obtain ⟨hnp, _, _, hok⟩ := parseInst_safe G hT τ (idx + 1) d (SView.inv hv) (SView.isSmall hv) hv.limit
    unfold parseLoop Spec.insts
    cases ws with
    | nil =>
      obtain ⟨d', hend⟩ := parseInst_end G τ (idx + 1) d hv
      rw [hend]
      simp [Spec.inst, consume]
    | cons w0 t =>
      -- what the recogniser says, and that the parser agrees
      have hagree : (match Spec.inst G τ (w0 :: t) with
          | some (i, rest) => ∃ d', parseInst G τ (idx + 1) d = (.ok i, d') ∧ SView B d' rest
          | none => ∀ i d', parseInst G τ (idx + 1) d ≠ (.ok i, d')) := by
        by_cases hfit : w0 / 65536 - 1 ≤ t.length
        · exact parseInst_ref G hc τ (idx + 1) d w0 t hv hfit
        · rw [inst_overrun G τ w0 t (by omega)]
          exact parseInst_overrun G τ (idx + 1) d w0 t hv (by omega)
      cases hs : Spec.inst G τ (w0 :: t) with
      | none =>
        rw [hs] at hagree
        dsimp only at hagree ⊢
        cases hr : parseInst G τ (idx + 1) d with
        | mk r d1 =>
          cases r with
          | ok i => exact absurd hr (hagree i d1)
          | panic site => rw [hr] at hnp; exact absurd rfl (hnp site)
          | err e =>
            have hne : e ≠ .complete := by
              intro he; subst he
              exact parseInst_complete G τ (idx + 1) d w0 t hv d1 hr
            have hat := parseInst_errAt G τ (idx + 1) d B w0 t hv e d1 hr
            have fin : ∀ (r : Run), r.result = .err (.inst e) → r.trace = tr.reverse →
                r.trace = tr.reverse ++ List.map Ev.inst ([] : List Inst) ++ (if (w0 :: t) = [] then [Ev.fin] else []) ∧
                (r.result = .ok () ↔ (w0 :: t) = []) ∧
                ((w0 :: t) ≠ [] → ∃ e' dF w0' t', r.result = .err (.inst e') ∧ e' ≠ .complete ∧ (w0 :: t) = w0' :: t' ∧
                  SView B dF (w0' :: t') ∧ ErrAt dF.offset (dF.offset + 4 * (w0' / 65536)) (idx + ([] : List Inst).length + 1) e' ∧
                  ∃ τF d1', parseInst G τF (idx + ([] : List Inst).length + 1) dF = (.err e', d1')) := by
              intro r h1 h2
              refine ⟨by simp [h2], by simp [h1], fun _ => ⟨e, d, w0, t, h1, hne, rfl, hv, by simpa using hat, τ, d1, by simpa using hr⟩⟩
            cases e with
            | complete => exact absurd rfl hne
            | wordCountZero _ _ => exact fin _ rfl rfl
            | opcodeUnknown _ _ _ => exact fin _ rfl rfl
            | operandExpected _ _ => exact fin _ rfl rfl
            | operandExceeded _ _ => exact fin _ rfl rfl
            | operandError _ => exact fin _ rfl rfl
            | typeUnsupported _ _ => exact fin _ rfl rfl
            | specConstantOpIntegerIncorrect _ _ => exact fin _ rfl rfl
      | some p =>
        obtain ⟨i, rest⟩ := p
        rw [hs] at hagree
        obtain ⟨d', hr, hv'⟩ := hagree
        rw [hr]
        dsimp only
        have htr := (hok i (by rw [hr])).2.2
        obtain ⟨τ1, ht⟩ := Option.isSome_iff_exists.1 htr
        simp only [ht]
        · have hlt := inst_shrinks G τ (w0 :: t) i rest hs
          simp only [List.length_cons] at hlt hf
          obtain ⟨h1, h2, h3⟩ := C03_loop G hT fuel τ1 (k + 1) (idx + 1) d' (Ev.inst i :: tr) rest hv' (by omega)
          simp only [consume]
          refine ⟨?_, h2, ?_⟩
          · rw [h1]; simp
          · intro hne
            obtain ⟨e, dF, w0', t', r1, r2, r3, r4, r5, τF, dF1, r6⟩ := h3 hne
            have : idx + 1 + (Spec.insts G fuel τ1 rest).1.length + 1 = idx + ((Spec.insts G fuel τ1 rest).1.length + 1) + 1 := by omega
            refine ⟨e, dF, w0', t', r1, r2, r3, r4, ?_, τF, dF1, ?_⟩
            · simp only [List.length_cons]
              rw [← this]; exact r5
            · simp only [List.length_cons]
              rw [← this]; exact r6

/-- the state after a complete header, seen as a stream of instruction words -/
theorem header_sview (bytes : List Nat) (hb : ∀ b ∈ bytes, b < 256) (hs : bytes.length < 2 ^ 63) (h20 : 20 ≤ bytes.length) :
    ∃ ws d1, DState.words 5 (DState.new bytes) = (.ok ws, d1) ∧ SView bytes d1 (Spec.streamWords bytes) ∧
      ws = (List.range 5).map (fun i => le32 bytes (4 * i)) := by
  -- five successful word reads from an unlimited state at offset 0
  have step : ∀ (o : Nat), o + 4 ≤ bytes.length →
      word ({ bytes := bytes, offset := o, limit := none } : DState) =
        (.ok (le32 bytes o), { bytes := bytes, offset := o + 4, limit := none }) := by
    intro o ho
    rcases word_spec ({ bytes := bytes, offset := o, limit := none } : DState) with ⟨h0, _⟩ | ⟨_, _, hw⟩ | ⟨_, hb', _⟩
    · cases h0
    · rw [hw]; rfl
    · exact absurd ho hb'
  refine ⟨_, { bytes := bytes, offset := 20, limit := none }, ?_, ?_, rfl⟩
  · simp only [DState.words, DState.new, step 0 (by omega), step 4 (by omega), step 8 (by omega), step 12 (by omega),
      step 16 (by omega)]
    rfl
  · have hlen : (Spec.streamWords bytes).length = (bytes.length - 20) / 4 := by simp [Spec.streamWords]
    refine ⟨rfl, rfl, ?_, ?_, ?_, hb, hs⟩
    · rw [hlen]; show 20 + 4 * ((bytes.length - 20) / 4) ≤ bytes.length; omega
    · rw [hlen]; show bytes.length < 20 + 4 * ((bytes.length - 20) / 4) + 4; omega
    · intro k hk
      rw [hlen] at hk
      simp [Spec.streamWords, List.getD_eq_getElem?_getD, hk]

/-- **C03 (acceptance = grammar).** For every binary (bytes below 256, shorter than 2^63) and a consumer that always
continues: the parse succeeds iff the binary has five header words with the magic number first and the recogniser
`Spec.insts` consumes every instruction word; the consumer is handed `initialize`, the header, exactly the recognised
instructions in stream order, and `finalize` iff the parse succeeds. -/
theorem C03_accept (G : Tables) (hT : tablesSafe G = true) (bytes : List Nat) (hb : ∀ b ∈ bytes, b < 256)
    (hs : bytes.length < 2 ^ 63) (h20 : 20 ≤ bytes.length) (hmagic : le32 bytes 0 = G.magic) :
    ((parse G (fun _ => .continue_) bytes).result = .ok () ↔
      (Spec.insts G (bytes.length + 1) [] (Spec.streamWords bytes)).2 = []) ∧
    ∃ h, (parse G (fun _ => .continue_) bytes).trace =
      .init :: .header h :: (Spec.insts G (bytes.length + 1) [] (Spec.streamWords bytes)).1.map Ev.inst ++
        (if (Spec.insts G (bytes.length + 1) [] (Spec.streamWords bytes)).2 = [] then [Ev.fin] else []) := by
  obtain ⟨ws, d1, hw, hv, hws⟩ := header_sview bytes hb hs h20
  have hlenw : (Spec.streamWords bytes).length < bytes.length + 1 := by
    simp only [Spec.streamWords, List.length_map, List.length_range]; omega
  unfold parse
  simp only [consume]
  unfold parseHeader
  rw [hw]
  have hm : (ws.getD 0 0 != G.magic) = false := by
    rw [hws]; simp [hmagic]
  simp only [hm, Bool.false_eq_true, if_false]
  let hd : Header := ⟨G.magic, (ws.getD 1 0 / 65536 % 256) * 65536 + (ws.getD 1 0 / 256 % 256) * 256, 0x000f0000, ws.getD 3 0, 0⟩
  obtain ⟨h1, h2, _⟩ := C03_loop G hT (bytes.length + 1) [] 2 0 d1 [.header hd, .init] _ hv hlenw
  refine ⟨h2, hd, ?_⟩
  rw [h1]
  simp

/-- **C03 (the first malformed instruction is reported).** If the recogniser stops before the end of the stream, at the
words `w0 :: t`, the parse ends with an instruction-level error (not `Complete`, no `finalize`) that carries — where its
kind has the field — the 1-based number of that instruction (the number of delivered instructions plus one), and a byte
offset inside its declared extent `[start, start + 4 * (w0 >> 16)]`, `start` being the offset of `w0` in the binary. -/
theorem C03_reject (G : Tables) (hT : tablesSafe G = true) (bytes : List Nat) (hb : ∀ b ∈ bytes, b < 256)
    (hs : bytes.length < 2 ^ 63) (h20 : 20 ≤ bytes.length) (hmagic : le32 bytes 0 = G.magic)
    (hrest : (Spec.insts G (bytes.length + 1) [] (Spec.streamWords bytes)).2 ≠ []) :
    ∃ e dF w0 t, (parse G (fun _ => .continue_) bytes).result = .err (.inst e) ∧ e ≠ .complete ∧
      (Spec.insts G (bytes.length + 1) [] (Spec.streamWords bytes)).2 = w0 :: t ∧ SView bytes dF (w0 :: t) ∧
      ErrAt dF.offset (dF.offset + 4 * (w0 / 65536))
        ((Spec.insts G (bytes.length + 1) [] (Spec.streamWords bytes)).1.length + 1) e ∧
      ∃ τF dF1, parseInst G τF ((Spec.insts G (bytes.length + 1) [] (Spec.streamWords bytes)).1.length + 1) dF = (.err e, dF1) := by
  obtain ⟨ws, d1, hw, hv, hws⟩ := header_sview bytes hb hs h20
  have hlenw : (Spec.streamWords bytes).length < bytes.length + 1 := by
    simp only [Spec.streamWords, List.length_map, List.length_range]; omega
  let hd : Header := ⟨G.magic, (ws.getD 1 0 / 65536 % 256) * 65536 + (ws.getD 1 0 / 256 % 256) * 256, 0x000f0000, ws.getD 3 0, 0⟩
  obtain ⟨_, _, h3⟩ := C03_loop G hT (bytes.length + 1) [] 2 0 d1 [.header hd, .init] _ hv hlenw
  obtain ⟨e, dF, w0, t, r1, r2, r3, r4, r5, τF, dF1, r6⟩ := h3 hrest
  refine ⟨e, dF, w0, t, ?_, r2, r3, r4, by simpa using r5, τF, dF1, by simpa using r6⟩
  have hm : (ws.getD 0 0 != G.magic) = false := by
    rw [hws]; simp [hmagic]
  unfold parse
  simp only [consume]
  unfold parseHeader
  rw [hw]
  simp only [hm, Bool.false_eq_true, if_false]
  exact r1

/-- fewer than five header words: rejected as an incomplete header, nothing but `initialize` is called -/
theorem C03_header_short (G : Tables) (bytes : List Nat) (h : bytes.length < 20) :
    ∃ e, (parse G (fun _ => .continue_) bytes).result = .err (.headerIncomplete e) ∧
      (parse G (fun _ => .continue_) bytes).trace = [.init] := by
  have hw : ∃ e d1, DState.words 5 (DState.new bytes) = (.err e, d1) := by
    have step : ∀ (o : Nat), o + 4 ≤ bytes.length →
        word ({ bytes := bytes, offset := o, limit := none } : DState) =
          (.ok (le32 bytes o), { bytes := bytes, offset := o + 4, limit := none }) := by
      intro o ho
      rcases word_spec ({ bytes := bytes, offset := o, limit := none } : DState) with ⟨h0, _⟩ | ⟨_, _, hw⟩ | ⟨_, hb', _⟩
      · cases h0
      · exact hw
      · exact absurd ho hb'
    have fail : ∀ (o : Nat), ¬ o + 4 ≤ bytes.length →
        word ({ bytes := bytes, offset := o, limit := none } : DState) =
          (.err (.streamExpected o), { bytes := bytes, offset := o, limit := none }) := by
      intro o ho
      rcases word_spec ({ bytes := bytes, offset := o, limit := none } : DState) with ⟨h0, _⟩ | ⟨_, hb', _⟩ | ⟨_, _, hw⟩
      · cases h0
      · exact absurd hb' ho
      · exact hw
    simp only [DState.words, DState.new]
    by_cases c0 : 0 + 4 ≤ bytes.length
    · rw [step 0 c0]; dsimp only
      by_cases c1 : 4 + 4 ≤ bytes.length
      · rw [step 4 c1]; dsimp only
        by_cases c2 : 8 + 4 ≤ bytes.length
        · rw [step 8 c2]; dsimp only
          by_cases c3 : 12 + 4 ≤ bytes.length
          · rw [step 12 c3]; dsimp only
            rw [fail 16 (by omega)]; exact ⟨_, _, rfl⟩
          · rw [fail 12 c3]; exact ⟨_, _, rfl⟩
        · rw [fail 8 c2]; exact ⟨_, _, rfl⟩
      · rw [fail 4 c1]; exact ⟨_, _, rfl⟩
    · rw [fail 0 c0]; exact ⟨_, _, rfl⟩
  obtain ⟨e, d1, hw⟩ := hw
  refine ⟨e, ?_, ?_⟩ <;> simp [parse, consume, parseHeader, hw]

/-- a complete header whose first word is not the magic number: rejected (byte-swapped magic is told apart) -/
theorem C03_header_magic (G : Tables) (bytes : List Nat) (hb : ∀ b ∈ bytes, b < 256) (hs : bytes.length < 2 ^ 63)
    (h20 : 20 ≤ bytes.length) (hmagic : le32 bytes 0 ≠ G.magic) :
    ((parse G (fun _ => .continue_) bytes).result = .err .headerIncorrect ∨
     (parse G (fun _ => .continue_) bytes).result = .err .endiannessUnsupported) ∧
    (parse G (fun _ => .continue_) bytes).trace = [.init] := by
  obtain ⟨ws, d1, hw, _, hws⟩ := header_sview bytes hb hs h20
  have hm : (ws.getD 0 0 != G.magic) = true := by
    rw [hws]; simpa using hmagic
  unfold parse
  simp only [consume]
  unfold parseHeader
  rw [hw]
  simp only [hm, if_true]
  by_cases hsw : (ws.getD 0 0 % 256 * 16777216 + ws.getD 0 0 / 256 % 256 * 65536 + ws.getD 0 0 / 65536 % 256 * 256 +
      ws.getD 0 0 / 16777216 == G.magic) = true
  · simp only [hsw, if_true]; simp
  · simp only [hsw, Bool.false_eq_true, if_false]; simp

open Rspirv.Instances in
/-- the theorem at the tables regenerated from the working tree -/
theorem C03 (bytes : List Nat) (hb : ∀ b ∈ bytes, b < 256) (hs : bytes.length < 2 ^ 63) (h20 : 20 ≤ bytes.length)
    (hmagic : le32 bytes 0 = theTables.magic) :
    ((parse theTables (fun _ => .continue_) bytes).result = .ok () ↔
      (Spec.insts theTables (bytes.length + 1) [] (Spec.streamWords bytes)).2 = []) :=
  (C03_accept theTables tables_safe bytes hb hs h20 hmagic).1

/-! ### non-vacuity: the recogniser on concrete words (kernel evaluation over the regenerated tables) -/

open Rspirv.Instances in
/-- `OpCapability Shader` = words `0x00020011, 1` -/
example : Spec.inst theTables [] [0x00020011, 1, 77] = some (⟨17, none, none, [.w Rspirv.Generated.Operands.v_Capability 1]⟩, [77]) := by
  decide +kernel

open Rspirv.Instances in
/-- `OpName %5 "ab"`: a string operand (NUL-terminated, zero padded) -/
example : Spec.inst theTables [] [0x00030005, 5, 0x00006261] =
    some (⟨5, none, none, [.w Rspirv.Generated.Operands.v_IdRef 5, .s [0x61, 0x62]]⟩, []) := by
  decide +kernel

open Rspirv.Instances in
/-- an unknown enumerant, a missing operand and a surplus operand are rejected -/
example : Spec.inst theTables [] [0x00020011, 0xffffffff] = none ∧ Spec.inst theTables [] [0x00010011] = none ∧
    Spec.inst theTables [] [0x00030011, 1, 2] = none := by
  decide +kernel

open Rspirv.Instances in
/-- a 64-bit literal under a tracked 64-bit integer type: low word first -/
example : Spec.inst theTables [(1, .int 64 false)] [0x0005002b, 1, 2, 7, 9] =
    some (⟨43, some 1, some 2, [.q (9 * 4294967296 + 7)]⟩, []) := by
  decide +kernel

end Rspirv.Props.C03
