import Rspirv.Model.Assemble
namespace Rspirv.Props.C03
end Rspirv.Props.C03
