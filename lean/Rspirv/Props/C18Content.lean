import Rspirv.Props.C18
/-!
# C18 — what the lifted functions, blocks and operations *are*

`Props/C18.lean` counts (one operation per result-producing block instruction, one block per block, …). This file says
which: a lifted value depends on the conversion context only through the three id ↦ token maps (`SameIds`,
`liftWith_congr`), so

* `liftBlockInsts_content`: the operations a block appends are, in order, `lift_op` of its result-producing non-phi
  non-line instructions, and its arguments are the result-type tokens of its phis, in order;
* `liftBlocks_content` (`BlocksSpec`): block `k` of a function is ⟨those arguments, `lift_terminator` of its last
  instruction⟩, lifted with the block ids of the blocks before it (`(label id, index)`), and its operations follow those
  of the blocks before it;
* `liftFunctions_content` (`FunctionsSpec`): every function keeps the control mask of its `OpFunction`, the token of its
  result type, and its blocks as above;
* `C18_content`: the operations of the converted module are the concatenation, function by function and block by
  block, of those lifts, and its functions are these.

With `C18_table` (each arm's fields are the grammar operands in order) and `liftFields_req` (a required plain field `j`
carries operand `j`) this is the "operands carried over positionally" clause for every operation of every block.
-/
namespace Rspirv.Props.C18Content
open Rspirv Rspirv.Model Rspirv.Props.C18

/-- the id ↦ token maps agree -/
def SameIds (c c' : LCtx) : Prop := c'.typeIds = c.typeIds ∧ c'.constIds = c.constIds ∧ c'.blockIds = c.blockIds

theorem SameIds.refl (c : LCtx) : SameIds c c := ⟨rfl, rfl, rfl⟩

theorem SameIds.trans {a b c : LCtx} (h1 : SameIds a b) (h2 : SameIds b c) : SameIds a c :=
  ⟨h2.1.trans h1.1, h2.2.1.trans h1.2.1, h2.2.2.trans h1.2.2⟩

theorem SameIds.symm {a b : LCtx} (h : SameIds a b) : SameIds b a := ⟨h.1.symm, h.2.1.symm, h.2.2.symm⟩

theorem applyTransform_congr (c c' : LCtx) (h : SameIds c c') (t : Nat) (o : Operand) :
    applyTransform c' t o = applyTransform c t o := by
  unfold applyTransform; rw [h.1, h.2.1, h.2.2]

theorem matchOne_congr (T : LiftTables) (c c' : LCtx) (h : SameIds c c') (v t : Nat) (ops : List Operand) :
    matchOne T c' v t ops = matchOne T c v t ops := by
  unfold matchOne
  cases ops with
  | nil => rfl
  | cons o rest => simp only [applyTransform_congr c c' h]

theorem matchList_congr (T : LiftTables) (c c' : LCtx) (h : SameIds c c') (v t : Nat) : ∀ ops : List Operand,
    matchList T c' v t ops = matchList T c v t ops
  | [] => rfl
  | o :: rest => by
    simp only [matchList, applyTransform_congr c c' h, matchList_congr T c c' h v t rest]

theorem matchPairs_congr (T : LiftTables) (c c' : LCtx) (h : SameIds c c') (v1 v2 t1 t2 : Nat) : ∀ ops : List Operand,
    matchPairs T c' v1 v2 t1 t2 ops = matchPairs T c v1 v2 t1 t2 ops
  | [] => rfl
  | [_] => rfl
  | a :: b :: rest => by
    simp only [matchPairs, applyTransform_congr c c' h, matchPairs_congr T c c' h v1 v2 t1 t2 rest]

theorem liftField_congr (T : LiftTables) (c c' : LCtx) (h : SameIds c c') (f : LField) (ops : List Operand) :
    liftField T c' f ops = liftField T c f ops := by
  unfold liftField
  simp only [matchOne_congr T c c' h, matchList_congr T c c' h, matchPairs_congr T c c' h]

theorem liftFields_congr (T : LiftTables) (c c' : LCtx) (h : SameIds c c') : ∀ (fs : List LField) (ops : List Operand),
    liftFields T c' fs ops = liftFields T c fs ops
  | [], _ => rfl
  | f :: fs, ops => by
    simp only [liftFields, liftField_congr T c c' h]
    cases liftField T c f ops with
    | ok p => simp only [liftFields_congr T c c' h fs]
    | err e => rfl
    | panic s => rfl

/-- **a lifted value depends on the context only through the id ↦ token maps** -/
theorem liftWith_congr (T : LiftTables) (c c' : LCtx) (h : SameIds c c') (arms : List LArm) (i : Inst) :
    Model.liftWith T c' arms i = Model.liftWith T c arms i := by
  unfold Model.liftWith
  cases arms.find? (fun a => a.opcode == i.opcode) with
  | none => rfl
  | some a => simp only [liftFields_congr T c c' h]

theorem liftTerminator_congr (T : LiftTables) (c c' : LCtx) (h : SameIds c c') (i : Inst) :
    liftTerminator T c' i = liftTerminator T c i := by
  unfold liftTerminator
  simp only [liftWith_congr T c c' h]

/-! ### one block instruction -/

/-- the three things `liftBlockInsts` can do with the first instruction of a successful run -/
theorem liftBlockInsts_step (T : LiftTables) (c : LCtx) (args : List LVal) (i : Inst) (rest : List Inst)
    (r : LCtx × List LVal) (h : liftBlockInsts T c args (i :: rest) = .ok r) :
    (isOpInst T i = false ∧ isPhi T i = false ∧ liftBlockInsts T c args rest = .ok r) ∨
    (isOpInst T i = false ∧ isPhi T i = true ∧ ∃ rt ty, i.rtype = some rt ∧ lookupId c.typeIds rt = some ty ∧
      liftBlockInsts T c (args ++ [.tok ty]) rest = .ok r) ∨
    (isOpInst T i = true ∧ isPhi T i = false ∧ ∃ op c1, Model.liftWith T c T.op i = .ok op ∧ c1.ops = c.ops ++ [op] ∧
      SameIds c c1 ∧ c1.types = c.types ∧ c1.consts = c.consts ∧ c1.blocks = c.blocks ∧
      liftBlockInsts T c1 args rest = .ok r) := by
  unfold liftBlockInsts at h
  by_cases hline : (i.opcode == T.opLine) = true
  · simp only [hline, if_true] at h
    exact Or.inl ⟨by simp [isOpInst, hline], by simp [isPhi, hline], h⟩
  · simp only [hline, Bool.false_eq_true, if_false] at h
    by_cases hphi : (i.opcode == T.opPhi) = true
    · simp only [hphi, if_true] at h
      refine Or.inr (Or.inl ⟨by simp [isOpInst, hphi], by simp [isPhi, hline, hphi], ?_⟩)
      cases hrt : i.rtype with
      | none => rw [hrt] at h; cases h
      | some rt =>
        rw [hrt] at h
        dsimp only at h
        cases hty : lookupId c.typeIds rt with
        | none => rw [hty] at h; cases h
        | some ty =>
          rw [hty] at h
          dsimp only at h
          split at h
          · exact ⟨rt, ty, rfl, hty, h⟩
          · cases h
          · cases h
    · simp only [hphi, Bool.false_eq_true, if_false] at h
      have e2 : isPhi T i = false := by simp [isPhi, hphi]
      cases hrid : i.rid with
      | none =>
        rw [hrid] at h
        exact Or.inl ⟨by simp [isOpInst, hrid], e2, h⟩
      | some id =>
        rw [hrid] at h
        dsimp only at h
        refine Or.inr (Or.inr ⟨by simp [isOpInst, hline, hphi, hrid], e2, ?_⟩)
        cases hw : Model.liftWith T c T.op i with
        | err e => rw [hw] at h; cases h
        | panic s => rw [hw] at h; cases h
        | ok op =>
          rw [hw] at h
          dsimp only at h
          split at h
          · cases h
          · cases hrt : i.rtype with
            | none =>
              rw [hrt] at h
              dsimp only at h
              exact ⟨op, { c with ops := c.ops ++ [op], opIds := (id, c.ops.length, none) :: c.opIds }, rfl, rfl,
                ⟨rfl, rfl, rfl⟩, rfl, rfl, rfl, h⟩
            | some rt =>
              rw [hrt] at h
              dsimp only at h
              cases hty : lookupId c.typeIds rt with
              | none => rw [hty] at h; cases h
              | some ty =>
                rw [hty] at h
                dsimp only at h
                exact ⟨op, { c with ops := c.ops ++ [op], opIds := (id, c.ops.length, some ty) :: c.opIds }, rfl, rfl,
                  ⟨rfl, rfl, rfl⟩, rfl, rfl, rfl, h⟩

/-- **what a block's instructions contribute** -/
theorem liftBlockInsts_content (T : LiftTables) : ∀ (insts : List Inst) (c : LCtx) (args : List LVal) (c' : LCtx)
    (args' : List LVal), liftBlockInsts T c args insts = .ok (c', args') →
    ∃ (ops : List LNode) (toks : List Nat), c'.ops = c.ops ++ ops ∧ args' = args ++ toks.map LVal.tok ∧ SameIds c c' ∧
      c'.types = c.types ∧ c'.consts = c.consts ∧ c'.blocks = c.blocks ∧
      (insts.filter (isOpInst T)).map (fun i => Model.liftWith T c T.op i) = ops.map LRes.ok ∧
      (insts.filter (isPhi T)).map (fun i => i.rtype.bind (lookupId c.typeIds)) = toks.map some
  | [], c, args, c', args', h => by
    simp only [liftBlockInsts, LRes.ok.injEq, Prod.mk.injEq] at h
    obtain ⟨rfl, rfl⟩ := h
    exact ⟨[], [], by simp, by simp, SameIds.refl _, rfl, rfl, rfl, rfl, rfl⟩
  | i :: rest, c, args, c', args', h => by
    rcases liftBlockInsts_step T c args i rest _ h with ⟨e1, e2, h'⟩ | ⟨e1, e2, rt, ty, hrt, hty, h'⟩ |
      ⟨e1, e2, op, c1, hw, hops, hids, ht, hc, hb, h'⟩
    · obtain ⟨ops, toks, a1, a2, a3, a4, a5, a6, a7, a8⟩ := liftBlockInsts_content T rest c args c' args' h'
      exact ⟨ops, toks, a1, a2, a3, a4, a5, a6, by simpa [List.filter_cons, e1] using a7,
        by simpa [List.filter_cons, e2] using a8⟩
    · obtain ⟨ops, toks, a1, a2, a3, a4, a5, a6, a7, a8⟩ := liftBlockInsts_content T rest c _ c' args' h'
      refine ⟨ops, ty :: toks, a1, by rw [a2]; simp, a3, a4, a5, a6, by simpa [List.filter_cons, e1] using a7, ?_⟩
      simp only [List.filter_cons, e2, if_true, List.map_cons, hrt, Option.bind_some, hty, a8]
    · obtain ⟨ops, toks, a1, a2, a3, a4, a5, a6, a7, a8⟩ := liftBlockInsts_content T rest c1 args c' args' h'
      refine ⟨op :: ops, toks, by rw [a1, hops]; simp, a2, hids.trans a3, a4.trans ht, a5.trans hc, a6.trans hb, ?_, ?_⟩
      · simp only [List.filter_cons, e1, if_true, List.map_cons, hw]
        congr 1
        rw [← a7]
        apply List.map_congr_left
        intro x _
        exact (liftWith_congr T c c1 hids T.op x).symm
      · simp only [List.filter_cons, e2, Bool.false_eq_true, if_false]
        rw [← a8, hids.1]

/-! ### the blocks of a function -/

/-- blocks `bs`, lifted in a context with the ids of `c` in which the blocks before them already have the tokens
`0..n-1`, give the lifted blocks `lbs` and, block by block, the operations `opss` -/
def BlocksSpec (T : LiftTables) : LCtx → Nat → List (Block Inst) → List LBlock → List (List LNode) → Prop
  | _, _, [], [], [] => True
  | c, n, b :: bs, lb :: lbs, ops :: opss =>
    ∃ (last : Inst) (toks : List Nat) (lid : Nat), b.insts.getLast? = some last ∧ liftTerminator T c last = .ok lb.term ∧
      lb.args = toks.map LVal.tok ∧
      (b.insts.filter (isPhi T)).map (fun i => i.rtype.bind (lookupId c.typeIds)) = toks.map some ∧
      (b.insts.filter (isOpInst T)).map (fun i => Model.liftWith T c T.op i) = ops.map LRes.ok ∧
      b.label.bind (·.rid) = some lid ∧
      BlocksSpec T { c with blockIds := (lid, n) :: c.blockIds } (n + 1) bs lbs opss
  | _, _, _, _, _ => False

theorem BlocksSpec_congr (T : LiftTables) : ∀ (bs : List (Block Inst)) (lbs : List LBlock) (opss : List (List LNode))
    (c c' : LCtx) (n : Nat), SameIds c c' → BlocksSpec T c' n bs lbs opss → BlocksSpec T c n bs lbs opss
  | [], [], [], _, _, _, _, _ => by simp [BlocksSpec]
  | b :: bs, lb :: lbs, ops :: opss, c, c', n, hs, h => by
    obtain ⟨last, toks, lid, h1, h2, h3, h4, h5, h6, h7⟩ := h
    refine ⟨last, toks, lid, h1, ?_, h3, ?_, ?_, h6, ?_⟩
    · rw [← liftTerminator_congr T c c' hs]; exact h2
    · rw [← hs.1]; exact h4
    · rw [← h5]
      apply List.map_congr_left
      intro x _
      exact (liftWith_congr T c c' hs T.op x).symm
    · exact BlocksSpec_congr T bs lbs opss { c with blockIds := (lid, n) :: c.blockIds }
        { c' with blockIds := (lid, n) :: c'.blockIds } (n + 1)
        ⟨hs.1, hs.2.1, (by show (lid, n) :: c'.blockIds = (lid, n) :: c.blockIds; rw [hs.2.2])⟩ h7
  | [], _ :: _, _, _, _, _, _, h => by cases h
  | [], [], _ :: _, _, _, _, _, h => by cases h
  | _ :: _, [], _, _, _, _, _, h => by cases h
  | _ :: _, _ :: _, [], _, _, _, _, h => by cases h

theorem liftBlocks_content (T : LiftTables) : ∀ (bs : List (Block Inst)) (c : LCtx) (acc : List LBlock) (c' : LCtx)
    (acc' : List LBlock), liftBlocks T c acc bs = .ok (c', acc') →
    ∃ (lbs : List LBlock) (opss : List (List LNode)), acc' = acc ++ lbs ∧ c'.ops = c.ops ++ opss.flatten ∧
      c'.typeIds = c.typeIds ∧ c'.constIds = c.constIds ∧ c'.types = c.types ∧ c'.consts = c.consts ∧
      BlocksSpec T c acc.length bs lbs opss
  | [], c, acc, c', acc', h => by
    simp only [liftBlocks, LRes.ok.injEq, Prod.mk.injEq] at h
    obtain ⟨rfl, rfl⟩ := h
    exact ⟨[], [], by simp, by simp, rfl, rfl, rfl, rfl, by simp [BlocksSpec]⟩
  | b :: rest, c, acc, c', acc', h => by
    unfold liftBlocks at h
    cases hi : liftBlockInsts T c [] b.insts with
    | err e => rw [hi] at h; cases h
    | panic s => rw [hi] at h; cases h
    | ok p =>
      obtain ⟨c1, args⟩ := p
      rw [hi] at h
      dsimp only at h
      obtain ⟨ops, toks, t1, t2, t3, t4, t5, t6, t7, t8⟩ := liftBlockInsts_content T b.insts c [] c1 args hi
      cases hlast : b.insts.getLast? with
      | none => rw [hlast] at h; cases h
      | some last =>
        rw [hlast] at h
        dsimp only at h
        cases hterm : liftTerminator T c1 last with
        | err e => rw [hterm] at h; cases h
        | panic s => rw [hterm] at h; cases h
        | ok term =>
          rw [hterm] at h
          dsimp only at h
          cases hlab : b.label.bind (·.rid) with
          | none => rw [hlab] at h; cases h
          | some lid =>
            rw [hlab] at h
            dsimp only at h
            split at h
            · cases h
            · obtain ⟨lbs, opss, a1, a2, a3, a4, a5, a6, a7⟩ := liftBlocks_content T rest _ (acc ++ [⟨args, term⟩]) c' acc' h
              dsimp only at a2 a3 a4 a5 a6
              refine ⟨⟨args, term⟩ :: lbs, ops :: opss, by rw [a1]; simp, by rw [a2, t1]; simp, by rw [a3, t3.1],
                by rw [a4, t3.2.1], by rw [a5, t4], by rw [a6, t5], ?_⟩
              refine ⟨last, toks, lid, hlast, ?_, by simpa using t2, t8, t7, hlab, ?_⟩
              · have := liftTerminator_congr T c c1 t3 last
                rw [this] at hterm
                exact hterm
              · simp only [List.length_append, List.length_cons, List.length_nil] at a7
                exact BlocksSpec_congr T rest lbs opss { c with blockIds := (lid, acc.length) :: c.blockIds }
                  { c1 with blocks := c1.blocks ++ [term], blockIds := (lid, acc.length) :: c1.blockIds } _
                  ⟨t3.1, t3.2.1, (by show (lid, acc.length) :: c1.blockIds = (lid, acc.length) :: c.blockIds; rw [t3.2.2])⟩ a7

/-! ### the functions of a module -/

def FunctionsSpec (T : LiftTables) (c : LCtx) : List (Function Inst) → List LFunction → List (List (List LNode)) → Prop
  | [], [], [] => True
  | f :: fs, lf :: lfs, o :: os =>
    ∃ d arm defn rt, f.def_ = some d ∧ T.function = some arm ∧ Model.liftWith T c [arm] d = .ok defn ∧
      lf.control = (nodeField defn T.nFunctionControl).getD .none ∧ d.rtype = some rt ∧
      lookupId c.typeIds rt = some lf.result ∧
      BlocksSpec T { c with blockIds := [] } 0 f.blocks lf.blocks o ∧ FunctionsSpec T c fs lfs os
  | _, _, _ => False

theorem FunctionsSpec_congr (T : LiftTables) : ∀ (fs : List (Function Inst)) (lfs : List LFunction)
    (os : List (List (List LNode))) (c c' : LCtx), c'.typeIds = c.typeIds → c'.constIds = c.constIds →
    c'.blockIds = [] → c.blockIds = [] → FunctionsSpec T c' fs lfs os → FunctionsSpec T c fs lfs os
  | [], [], [], _, _, _, _, _, _, _ => trivial
  | f :: fs, lf :: lfs, o :: os, c, c', h1, h2, h3, h4, h => by
    obtain ⟨d, arm, defn, rt, e1, e2, e3, e4, e5, e6, e7, e8⟩ := h
    have hs : SameIds c c' := ⟨h1, h2, by rw [h3, h4]⟩
    refine ⟨d, arm, defn, rt, e1, e2, ?_, e4, e5, by rw [← h1]; exact e6, ?_, FunctionsSpec_congr T fs lfs os c c' h1 h2 h3 h4 e8⟩
    · rw [← liftWith_congr T c c' hs]; exact e3
    · exact BlocksSpec_congr T f.blocks lf.blocks o { c with blockIds := [] } { c' with blockIds := [] } 0 ⟨h1, h2, rfl⟩ e7
  | [], _ :: _, _, _, _, _, _, _, _, h => by cases h
  | [], [], _ :: _, _, _, _, _, _, _, h => by cases h
  | _ :: _, [], _, _, _, _, _, _, _, h => by cases h
  | _ :: _, _ :: _, [], _, _, _, _, _, _, h => by cases h

theorem liftFunctions_content (T : LiftTables) : ∀ (fs : List (Function Inst)) (c : LCtx) (acc : List LFunction)
    (c' : LCtx) (acc' : List LFunction), c.blockIds = [] → liftFunctions T c acc fs = .ok (c', acc') →
    ∃ (lfs : List LFunction) (os : List (List (List LNode))), acc' = acc ++ lfs ∧
      c'.ops = c.ops ++ (os.map List.flatten).flatten ∧ c'.types = c.types ∧ c'.consts = c.consts ∧
      FunctionsSpec T c fs lfs os
  | [], c, acc, c', acc', _, h => by
    simp only [liftFunctions, LRes.ok.injEq, Prod.mk.injEq] at h
    obtain ⟨rfl, rfl⟩ := h
    exact ⟨[], [], by simp, by simp, rfl, rfl, trivial⟩
  | f :: rest, c, acc, c', acc', hb0, h => by
    unfold liftFunctions at h
    cases hd : f.def_ with
    | none => rw [hd] at h; cases h
    | some d =>
      rw [hd] at h
      dsimp only at h
      cases harm : T.function with
      | none => rw [harm] at h; cases h
      | some arm =>
        rw [harm] at h
        dsimp only at h
        cases hw : Model.liftWith T c [arm] d with
        | err e => rw [hw] at h; cases h
        | panic s => rw [hw] at h; cases h
        | ok defn =>
          rw [hw] at h
          dsimp only at h
          cases hb : liftBlocks T { c with blocks := [], blockIds := [] } [] f.blocks with
          | err e => rw [hb] at h; cases h
          | panic s => rw [hb] at h; cases h
          | ok p =>
            obtain ⟨c1, blocks⟩ := p
            rw [hb] at h
            dsimp only at h
            obtain ⟨lbs, opss, b1, b2, b3, b4, b5, b6, b7⟩ := liftBlocks_content T f.blocks _ [] c1 blocks hb
            dsimp only at b2 b3 b4 b5 b6
            simp only [List.nil_append] at b1
            subst b1
            simp only [List.length_nil] at b7
            cases hh : f.blocks.head? with
            | none => rw [hh] at h; cases h
            | some b0 =>
              rw [hh] at h
              dsimp only at h
              cases hl0 : b0.label.bind (·.rid) with
              | none => rw [hl0] at h; cases h
              | some l0 =>
                rw [hl0] at h
                dsimp only at h
                cases hst : lookupId c1.blockIds l0 with
                | none => rw [hst] at h; cases h
                | some start =>
                  rw [hst] at h
                  dsimp only at h
                  cases hrt : d.rtype with
                  | none => rw [hrt] at h; cases h
                  | some rt =>
                    rw [hrt] at h
                    dsimp only at h
                    cases hres : lookupId c1.typeIds rt with
                    | none => rw [hres] at h; cases h
                    | some res =>
                      rw [hres] at h
                      dsimp only at h
                      obtain ⟨lfs, os, a1, a2, a3, a4, a5⟩ := liftFunctions_content T rest _ _ c' acc' rfl h
                      dsimp only at a2 a3 a4
                      refine ⟨⟨(nodeField defn T.nFunctionControl).getD .none, res, blocks, start⟩ :: lfs, opss :: os,
                        by rw [a1]; simp, by rw [a2, b2]; simp, by rw [a3, b5], by rw [a4, b6], ?_⟩
                      refine ⟨d, arm, defn, rt, hd, harm, hw, rfl, hrt, by rw [← b3]; exact hres, ?_, ?_⟩
                      · exact BlocksSpec_congr T f.blocks _ opss { c with blockIds := [] } { c with blocks := [], blockIds := [] } 0 ⟨rfl, rfl, rfl⟩ b7
                      · exact FunctionsSpec_congr T rest lfs os c { c1 with blocks := [], blockIds := [] } b3 b4 rfl hb0 a5

theorem liftGlobals_blockIds (T : LiftTables) : ∀ (insts : List Inst) (c c' : LCtx), liftGlobals T c insts = .ok c' →
    c'.blockIds = c.blockIds
  | [], c, c', h => by simp only [liftGlobals, LRes.ok.injEq] at h; subst h; rfl
  | i :: rest, c, c', h => by
    unfold liftGlobals at h
    cases hw : Model.liftWith T c T.type_ i with
    | ok v =>
      rw [hw] at h
      dsimp only at h
      cases hrid : i.rid with
      | none => rw [hrid] at h; exact liftGlobals_blockIds T rest c c' h
      | some id =>
        rw [hrid] at h
        dsimp only at h
        split at h
        · cases h
        · have := liftGlobals_blockIds T rest _ c' h
          exact this
    | panic s => rw [hw] at h; cases h
    | err e =>
      rw [hw] at h
      cases e with
      | missingResult => cases h
      | operand _ => cases h
      | wrongOpcode =>
        dsimp only at h
        cases hc : liftConstant T c i with
        | ok v =>
          rw [hc] at h
          dsimp only at h
          cases hrid : i.rid with
          | none => rw [hrid] at h; exact liftGlobals_blockIds T rest c c' h
          | some id =>
            rw [hrid] at h
            dsimp only at h
            split at h
            · cases h
            · have := liftGlobals_blockIds T rest _ c' h
              exact this
        | panic s => rw [hc] at h; cases h
        | err e2 =>
          rw [hc] at h
          cases e2 with
          | missingResult => cases h
          | operand _ => cases h
          | wrongOpcode => exact liftGlobals_blockIds T rest c c' h

/-- **C18 (content).** A successful conversion: after the globals have been lifted into the context `c0`, the functions
of the structured module are, one by one, the `OpFunction`'s control mask, the token of its result type and its blocks,
block `k` being ⟨result-type tokens of its phis, `lift_terminator` of its last instruction⟩ lifted with the earlier
blocks' ids; the operations are the `lift_op` of the result-producing non-phi non-line instructions, function by function,
block by block, in order; types and constants are those of `c0`. -/
theorem C18_content (T : LiftTables) (m : Module Inst) (lm : LModule) (h : convert T m = .ok lm) :
    ∃ (c0 : LCtx) (os : List (List (List LNode))), liftGlobals T LCtx.empty m.typesGlobalValues = .ok c0 ∧
      lm.types = c0.types ∧ lm.consts = c0.consts ∧ lm.ops = (os.map List.flatten).flatten ∧
      FunctionsSpec T c0 m.functions lm.functions os := by
  unfold convert at h
  cases hg : liftGlobals T LCtx.empty m.typesGlobalValues with
  | err e => rw [hg] at h; cases h
  | panic s => rw [hg] at h; cases h
  | ok c0 =>
    rw [hg] at h
    dsimp only at h
    obtain ⟨_, _, _, _, g5⟩ := liftGlobals_counts T _ _ _ hg
    cases hf : liftFunctions T c0 [] m.functions with
    | err e => rw [hf] at h; cases h
    | panic s => rw [hf] at h; cases h
    | ok p =>
      obtain ⟨c, fns⟩ := p
      rw [hf] at h
      dsimp only at h
      have hb0 : c0.blockIds = [] := by
        have := liftGlobals_blockIds T _ _ _ hg
        simpa [LCtx.empty] using this
      have hops0 : c0.ops = [] := by simpa [LCtx.empty] using g5
      obtain ⟨lfs, os, f1, f2, f3, f4, f5⟩ := liftFunctions_content T _ _ _ _ _ hb0 hf
      simp only [List.nil_append] at f1
      subst f1
      rw [hops0, List.nil_append] at f2
      cases hh : m.header with
      | none => rw [hh] at h; cases h
      | some hd =>
        rw [hh] at h
        dsimp only at h
        cases hc : T.capability with
        | none => rw [hc] at h; cases h
        | some capArm =>
          rw [hc] at h
          dsimp only at h
          split at h
          · cases h
          · cases h
          · rename_i cs _
            cases hmm : m.memoryModel with
            | none => rw [hmm] at h; cases h
            | some mm =>
              rw [hmm] at h
              dsimp only at h
              cases hmarm : T.memoryModel with
              | none => rw [hmarm] at h; cases h
              | some mmArm =>
                rw [hmarm] at h
                dsimp only at h
                cases hmw : Model.liftWith T c [mmArm] mm with
                | err e => rw [hmw] at h; cases h
                | panic s => rw [hmw] at h; cases h
                | ok mmn =>
                  rw [hmw] at h
                  simp only [LRes.ok.injEq] at h
                  subst h
                  exact ⟨c0, os, rfl, f3, f4, f2, f5⟩

end Rspirv.Props.C18Content
