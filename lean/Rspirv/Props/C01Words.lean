import Rspirv.Props.C02
/-!
# C01, instruction level — a parsed instruction re-encodes to the words it was parsed from

`OpWords o ws`: the words `ws` are an encoding of operand `o` — the one word of a one-word operand, low and high word
of a 64-bit literal, and for a string as many words as its packed form has, whose bytes up to and including the NUL
terminator are the string followed by `0` (what follows the terminator inside the last word is free).
`InstWords i ws`: first word `word count << 16 | opcode` with the word count equal to `ws.length`, then result type,
result id and operand encodings.

* `inst_words` – whatever the recogniser (hence, by `Props/ParserSpec.lean`, the parser) accepts as instruction `i` from the
  head of a word list is a prefix `used` of that list with `InstWords i used`;
* `assemble_words` – the assembler's output for `i` also satisfies `InstWords i`;
* `instWords_agree` – two word lists with `InstWords i` have the same length and the same words, except that inside a
  string operand only the bytes up to and including the NUL must agree.
Together: load-then-assemble re-encodes every instruction to the same words, only bytes after a string's NUL
terminator may differ (C01).
-/
namespace Rspirv.Props.C01Words
open Rspirv Rspirv.Model Rspirv.Model.DState Rspirv.Props.C02

/-- an encoding of one operand -/
def OpWords : Operand → List Nat → Prop
  | .w _ x, ws => ws = [x]
  | .q v, ws => ∃ lo hi, ws = [lo, hi] ∧ v = (hi % 4294967296) * 4294967296 + lo % 4294967296
  | .s bs, ws => ws.length = bs.length / 4 + 1 ∧ (ws.flatMap Spec.wordBytes).take (bs.length + 1) = bs ++ [0]

/-- an encoding of an operand list: the concatenation of encodings of its operands -/
inductive OpsWords : List Operand → List Nat → Prop
  | nil : OpsWords [] []
  | cons {o : Operand} {os : List Operand} {w ws : List Nat} : OpWords o w → OpsWords os ws → OpsWords (o :: os) (w ++ ws)

theorem OpsWords.append {a b : List Operand} {u v : List Nat} (h1 : OpsWords a u) (h2 : OpsWords b v) :
    OpsWords (a ++ b) (u ++ v) := by
  induction h1 with
  | nil => simpa using h2
  | cons ho _ ih => rw [List.cons_append, List.append_assoc]; exact OpsWords.cons ho ih

theorem OpsWords.single {o : Operand} {w : List Nat} (h : OpWords o w) : OpsWords [o] w := by
  have := OpsWords.cons h OpsWords.nil
  simpa using this

/-! ### the recogniser consumes an encoding of what it returns -/

theorem str_words (ws bs rest : List Nat) (h : Spec.str ws = some (bs, rest)) :
    ∃ used, ws = used ++ rest ∧ OpWords (.s bs) used := by
  unfold Spec.str at h
  cases hf : (ws.flatMap Spec.wordBytes).findIdx? (· == 0) with
  | none => rw [hf] at h; cases h
  | some nul =>
    rw [hf] at h
    dsimp only at h
    split at h
    · cases h
      obtain ⟨hnl, hz, _⟩ := List.findIdx?_eq_some_iff_getElem.1 hf
      have hBl := flatMap_wordBytes_length ws
      rw [hBl] at hnl
      refine ⟨ws.take (nul / 4 + 1), (List.take_append_drop _ _).symm, ?_, ?_⟩
      · simp only [List.length_take]; omega
      · -- the bytes of the consumed words, cut after the terminator, are the string and the NUL
        have htk : (ws.take (nul / 4 + 1)).flatMap Spec.wordBytes = (ws.flatMap Spec.wordBytes).take (4 * (nul / 4 + 1)) := by
          have : ∀ (l : List Nat) (n : Nat), (l.take n).flatMap Spec.wordBytes = (l.flatMap Spec.wordBytes).take (4 * n) := by
            intro l
            induction l with
            | nil => intro n; simp
            | cons w t ih =>
              intro n
              cases n with
              | zero => simp
              | succ n =>
                simp only [List.take_succ_cons, List.flatMap_cons, ih n]
                have h4 : 4 * (n + 1) = (Spec.wordBytes w).length + 4 * n := by simp [Spec.wordBytes]; omega
                rw [h4, List.take_length_add_append]
          exact this ws _
        have hlen1 : ((ws.flatMap Spec.wordBytes).take nul).length = nul := by
          rw [List.length_take, hBl]; omega
        rw [htk, hlen1, List.take_take]
        have hmin : min (nul + 1) (4 * (nul / 4 + 1)) = nul + 1 := by omega
        rw [hmin]
        rw [List.take_succ_eq_append_getElem (by rw [hBl]; exact hnl)]
        congr 1
        simpa using hz
    · cases h

theorem elem_words (G : Tables) (e : Elem) (ws : List Nat) (o : Operand) (rest : List Nat)
    (h : Spec.elem G e ws = some (o, rest)) (hex : EnumsExact G) : ∃ used, ws = used ++ rest ∧ OpWords o used := by
  unfold Spec.elem at h
  split at h
  · cases ws with
    | nil => cases h
    | cons w t =>
      dsimp only at h
      cases hE : G.enums[e.ix]? with
      | none => rw [hE] at h; cases h
      | some E =>
        rw [hE] at h
        dsimp only at h
        cases hf : E.fromU32 w with
        | none => rw [hf] at h; cases h
        | some v =>
          rw [hf] at h
          cases h
          have hv : v = w := (EnumSpec.fromU32_exact E (hex E (List.mem_of_getElem? hE)) w).2 v hf
          subst hv
          exact ⟨[v], rfl, rfl⟩
  · split at h
    · cases ws with
      | nil => cases h
      | cons w t =>
        dsimp only at h
        cases hM : G.masks[e.ix]? with
        | none => rw [hM] at h; cases h
        | some M =>
          rw [hM] at h
          dsimp only at h
          cases hf : M.fromBits w with
          | none => rw [hf] at h; cases h
          | some v =>
            rw [hf] at h
            cases h
            have hv : v = w := by
              unfold MaskSpec.fromBits at hf
              split at hf
              · cases hf; rfl
              · cases hf
            subst hv
            exact ⟨[v], rfl, rfl⟩
    · split at h
      · cases ws with
        | nil => cases h
        | cons w t => cases h; exact ⟨[w], rfl, rfl⟩
      · cases hs : Spec.str ws with
        | none => rw [hs] at h; cases h
        | some p =>
          obtain ⟨bs, rest'⟩ := p
          rw [hs] at h
          cases h
          exact str_words ws bs rest hs

theorem elems_words (G : Tables) (hex : EnumsExact G) : ∀ (es : List Elem) (ws : List Nat) (os : List Operand) (rest : List Nat),
    Spec.elems G es ws = some (os, rest) → ∃ used, ws = used ++ rest ∧ OpsWords os used
  | [], ws, os, rest, h => by simp only [Spec.elems] at h; cases h; exact ⟨[], rfl, OpsWords.nil⟩
  | e :: es, ws, os, rest, h => by
    unfold Spec.elems at h
    cases h1 : Spec.elem G e ws with
    | none => rw [h1] at h; cases h
    | some p =>
      obtain ⟨o, t⟩ := p
      rw [h1] at h
      dsimp only at h
      cases h2 : Spec.elems G es t with
      | none => rw [h2] at h; cases h
      | some q =>
        obtain ⟨os', t'⟩ := q
        rw [h2] at h
        cases h
        obtain ⟨u1, e1, w1⟩ := elem_words G e ws o t h1 hex
        obtain ⟨u2, e2, w2⟩ := elems_words G hex es t os' rest h2
        exact ⟨u1 ++ u2, by rw [e1, e2, List.append_assoc], OpsWords.cons w1 w2⟩

theorem operand_words (G : Tables) (hex : EnumsExact G) (k : Nat) (ws : List Nat) (os : List Operand) (rest : List Nat)
    (h : Spec.operand G k ws = some (os, rest)) : ∃ used, ws = used ++ rest ∧ OpsWords os used := by
  unfold Spec.operand at h
  cases ha : G.kindActs[k]? with
  | none => rw [ha] at h; cases h
  | some act =>
    rw [ha] at h
    cases act with
    | panics => cases h
    | elems es => exact elems_words G hex es ws os rest h
    | maskParams e rows =>
      dsimp only at h
      cases h1 : Spec.elem G e ws with
      | none => rw [h1] at h; cases h
      | some p =>
        obtain ⟨v, t⟩ := p
        rw [h1] at h
        dsimp only at h
        cases h2 : Spec.elems G (maskSel rows v.num) t with
        | none => rw [h2] at h; cases h
        | some q =>
          obtain ⟨os', t'⟩ := q
          rw [h2] at h
          cases h
          obtain ⟨u1, e1, w1⟩ := elem_words G e ws v t h1 hex
          obtain ⟨u2, e2, w2⟩ := elems_words G hex _ t os' rest h2
          exact ⟨u1 ++ u2, by rw [e1, e2, List.append_assoc], OpsWords.cons w1 w2⟩
    | enumParams e rows =>
      dsimp only at h
      cases h1 : Spec.elem G e ws with
      | none => rw [h1] at h; cases h
      | some p =>
        obtain ⟨v, t⟩ := p
        rw [h1] at h
        dsimp only at h
        cases h2 : Spec.elems G (enumSel rows v.num) t with
        | none => rw [h2] at h; cases h
        | some q =>
          obtain ⟨os', t'⟩ := q
          rw [h2] at h
          cases h
          obtain ⟨u1, e1, w1⟩ := elem_words G e ws v t h1 hex
          obtain ⟨u2, e2, w2⟩ := elems_words G hex _ t os' rest h2
          exact ⟨u1 ++ u2, by rw [e1, e2, List.append_assoc], OpsWords.cons w1 w2⟩

theorem literal_words (G : Tables) (τ : Tracker) (ty : Nat) (ws : List Nat) (o : Operand) (rest : List Nat)
    (h : Spec.literal G τ ty ws = some (o, rest)) : ∃ used, ws = used ++ rest ∧ OpWords o used := by
  have h1 : ∀ o rest, Spec.lit1 G ws = some (o, rest) → ∃ used, ws = used ++ rest ∧ OpWords o used := by
    intro o rest h
    unfold Spec.lit1 at h
    cases ws with
    | nil => cases h
    | cons w t => cases h; exact ⟨[w], rfl, rfl⟩
  have h2 : ∀ o rest, Spec.lit2 ws = some (o, rest) → ∃ used, ws = used ++ rest ∧ OpWords o used := by
    intro o rest h
    unfold Spec.lit2 at h
    cases ws with
    | nil => cases h
    | cons lo t =>
      cases t with
      | nil => cases h
      | cons hi t' => cases h; exact ⟨[lo, hi], rfl, lo, hi, rfl, rfl⟩
  unfold Spec.literal at h
  cases hres : τ.resolve ty with
  | none => rw [hres] at h; exact h1 o rest h
  | some t =>
    rw [hres] at h
    cases t with
    | int w sg =>
      dsimp only at h
      split at h
      · exact h1 o rest h
      · split at h
        · exact h2 o rest h
        · cases h
    | float w =>
      dsimp only at h
      split at h
      · exact h1 o rest h
      · split at h
        · exact h2 o rest h
        · cases h

theorem many_words (G : Tables) (hex : EnumsExact G) (k : Nat) : ∀ (fuel : Nat) (ws : List Nat) (os : List Operand),
    Spec.many G k fuel ws = some os → OpsWords os ws
  | 0, _, _, h => by simp only [Spec.many] at h; cases h
  | fuel + 1, ws, os, h => by
    unfold Spec.many at h
    split at h
    · rename_i hemp
      cases h
      have : ws = [] := List.isEmpty_iff.1 hemp
      subst this
      exact OpsWords.nil
    · cases h1 : Spec.operand G k ws with
      | none => rw [h1] at h; cases h
      | some p =>
        obtain ⟨os1, t⟩ := p
        rw [h1] at h
        dsimp only at h
        cases h2 : Spec.many G k fuel t with
        | none => rw [h2] at h; cases h
        | some more =>
          rw [h2] at h
          cases h
          obtain ⟨u1, e1, w1⟩ := operand_words G hex k ws os1 t h1
          have w2 := many_words G hex k fuel t more h2
          rw [e1]
          exact w1.append w2

theorem nested_words (G : Tables) (hex : EnumsExact G) : ∀ (ops : List (Nat × Nat)) (ws : List Nat) (os : List Operand)
    (rest : List Nat), Spec.nested G ops ws = some (os, rest) → ∃ used, ws = used ++ rest ∧ OpsWords os used
  | [], ws, os, rest, h => by simp only [Spec.nested] at h; cases h; exact ⟨[], rfl, OpsWords.nil⟩
  | (k, q) :: ops, ws, os, rest, h => by
    unfold Spec.nested at h
    split at h
    · exact nested_words G hex ops ws os rest h
    · have hhere : ∀ os1 t, (if q == 0 then Spec.operand G k ws
           else if q == 1 then (if ws.isEmpty then some ([], ws) else Spec.operand G k ws)
           else (match Spec.many G k (ws.length + 1) ws with | some os => some (os, []) | none => none)) = some (os1, t) →
          ∃ used, ws = used ++ t ∧ OpsWords os1 used := by
        intro os1 t he
        split at he
        · exact operand_words G hex k ws os1 t he
        · split at he
          · split at he
            · cases he; exact ⟨[], rfl, OpsWords.nil⟩
            · exact operand_words G hex k ws os1 t he
          · cases hm : Spec.many G k (ws.length + 1) ws with
            | none => rw [hm] at he; cases he
            | some osm =>
              rw [hm] at he
              cases he
              exact ⟨ws, by simp, many_words G hex k _ ws os1 hm⟩
      dsimp only at h
      generalize (if q == 0 then Spec.operand G k ws
           else if q == 1 then (if ws.isEmpty then some ([], ws) else Spec.operand G k ws)
           else (match Spec.many G k (ws.length + 1) ws with | some os => some (os, []) | none => none)) = here at h hhere
      cases here with
      | none => cases h
      | some p =>
        obtain ⟨os1, t⟩ := p
        dsimp only at h
        cases h2 : Spec.nested G ops t with
        | none => rw [h2] at h; cases h
        | some p2 =>
          obtain ⟨more, t'⟩ := p2
          rw [h2] at h
          cases h
          obtain ⟨u1, e1, w1⟩ := hhere os1 t rfl
          obtain ⟨u2, e2, w2⟩ := nested_words G hex ops t more rest h2
          exact ⟨u1 ++ u2, by rw [e1, e2, List.append_assoc], w1.append w2⟩

theorem specOp_words (G : Tables) (hex : EnumsExact G) (ws : List Nat) (os : List Operand) (rest : List Nat)
    (h : Spec.specOp G ws = some (os, rest)) : ∃ used, ws = used ++ rest ∧ OpsWords os used := by
  unfold Spec.specOp at h
  cases ws with
  | nil => cases h
  | cons number t =>
    dsimp only at h
    generalize hg : Option.filter (fun e => !(e.ops.any (fun o => isCtxKind G o.1)))
      (if number ≤ 65535 then lookupOpcode G.core number else none) = g at h
    cases g with
    | none => cases h
    | some e =>
      dsimp only at h
      have hop : e.opcode = number := by
        rw [Option.filter_eq_some_iff] at hg
        obtain ⟨hlook, _⟩ := hg
        split at hlook
        · exact (lookupOpcode_some _ _ _ hlook).2
        · cases hlook
      cases h2 : Spec.nested G e.ops t with
      | none => rw [h2] at h; cases h
      | some p =>
        obtain ⟨os', t'⟩ := p
        rw [h2] at h
        cases h
        obtain ⟨u2, e2, w2⟩ := nested_words G hex e.ops t os' rest h2
        refine ⟨number :: u2, by rw [e2]; rfl, ?_⟩
        have : OpWords (.w G.vSpecOp e.opcode) [number] := by rw [hop]; rfl
        exact OpsWords.cons this w2

/-- the words of an accumulator: result type, result id, then an encoding of the operands -/
def AccWords (a : Acc) (ws : List Nat) : Prop :=
  ∃ ops, ws = a.rtype.toList ++ a.rid.toList ++ ops ∧ OpsWords a.ops ops

theorem one_words (G : Tables) (hex : EnumsExact G) (τ : Tracker) (opcode k : Nat) (a a1 : Acc) (ws t : List Nat)
    (h : Spec.one G τ opcode k a ws = some (a1, t))
    (hrt : (k == G.kIdResultType) = true → a.rtype = none ∧ a.rid = none ∧ a.ops = [])
    (hrid : (k == G.kIdResult) = true → a.rid = none ∧ a.ops = []) (u0 : List Nat) (h0 : AccWords a u0) :
    ∃ used, ws = used ++ t ∧ AccWords a1 (u0 ++ used) := by
  obtain ⟨ops0, hu0, hw0⟩ := h0
  have app : ∀ (os : List Operand) (used : List Nat), OpsWords os used →
      AccWords { a with ops := a.ops ++ os } (u0 ++ used) := by
    intro os used hos
    exact ⟨ops0 ++ used, by rw [hu0]; simp [List.append_assoc], hw0.append hos⟩
  unfold Spec.one at h
  by_cases k1 : (k == G.kIdResultType) = true
  · simp only [k1, if_true] at h
    cases ws with
    | nil => cases h
    | cons w t0 =>
      cases h
      obtain ⟨e1, e2, e3⟩ := hrt k1
      refine ⟨[w], rfl, [], ?_, ?_⟩
      · rw [hu0, e1, e2]
        rw [e3] at hw0
        cases hw0
        simp
      · rw [e3]; exact OpsWords.nil
  · simp only [k1, Bool.false_eq_true, if_false] at h
    by_cases k2 : (k == G.kIdResult) = true
    · simp only [k2, if_true] at h
      cases ws with
      | nil => cases h
      | cons w t0 =>
        cases h
        obtain ⟨e2, e3⟩ := hrid k2
        refine ⟨[w], rfl, [], ?_, ?_⟩
        · rw [hu0, e2]
          rw [e3] at hw0
          cases hw0
          simp
        · rw [e3]; exact OpsWords.nil
    · simp only [k2, Bool.false_eq_true, if_false] at h
      by_cases k3 : (k == G.kCtxNumber) = true
      · simp only [k3, if_true] at h
        split at h
        · cases h
        · cases hrtype : a.rtype with
          | none => rw [hrtype] at h; cases h
          | some ty =>
            rw [hrtype] at h
            dsimp only at h
            cases hl : Spec.literal G τ ty ws with
            | none => rw [hl] at h; cases h
            | some p =>
              obtain ⟨o, t'⟩ := p
              rw [hl] at h
              cases h
              obtain ⟨used, e1, w1⟩ := literal_words G τ ty ws o t hl
              have := app [o] used (OpsWords.single w1)
              rw [hrtype] at this
              exact ⟨used, e1, this⟩
      · simp only [k3, Bool.false_eq_true, if_false] at h
        by_cases k4 : (k == G.kPairLitId) = true
        · simp only [k4, if_true] at h
          split at h
          · cases h
          · cases hops : a.ops with
            | nil => rw [hops] at h; cases h
            | cons o0 tl =>
              rw [hops] at h
              cases o0 with
              | q v => cases h
              | s bsx => cases h
              | w v sel =>
                dsimp only at h
                split at h
                · cases h
                · cases hl : Spec.literal G τ sel ws with
                  | none => rw [hl] at h; cases h
                  | some p =>
                    obtain ⟨lit, t'⟩ := p
                    rw [hl] at h
                    cases t' with
                    | nil => cases h
                    | cons tgt t'' =>
                      cases h
                      obtain ⟨used, e1, w1⟩ := literal_words G τ sel ws lit (tgt :: t) hl
                      have hw2 : OpsWords [lit, .w G.vIdRef tgt] (used ++ [tgt]) := by
                        have : OpWords (.w G.vIdRef tgt) [tgt] := rfl
                        exact OpsWords.cons w1 (OpsWords.single this)
                      have := app [lit, .w G.vIdRef tgt] (used ++ [tgt]) hw2
                      rw [hops] at this
                      exact ⟨used ++ [tgt], by rw [e1]; simp, this⟩
        · simp only [k4, Bool.false_eq_true, if_false] at h
          by_cases k5 : (k == G.kSpecOp) = true
          · simp only [k5, if_true] at h
            cases hs : Spec.specOp G ws with
            | none => rw [hs] at h; cases h
            | some p =>
              obtain ⟨os, t'⟩ := p
              rw [hs] at h
              cases h
              obtain ⟨used, e1, w1⟩ := specOp_words G hex ws os t hs
              exact ⟨used, e1, app os used w1⟩
          · simp only [k5, Bool.false_eq_true, if_false] at h
            cases hs : Spec.operand G k ws with
            | none => rw [hs] at h; cases h
            | some p =>
              obtain ⟨os, t'⟩ := p
              rw [hs] at h
              cases h
              obtain ⟨used, e1, w1⟩ := operand_words G hex k ws os t hs
              exact ⟨used, e1, app os used w1⟩

theorem loop_words (G : Tables) (hex : EnumsExact G) (τ : Tracker) (opcode : Nat)
    (hne : (G.kIdResult == G.kIdResultType) = false) :
    ∀ (fuel : Nat) (ops : List (Nat × Nat)) (a a' : Acc) (ws rest : List Nat),
    Spec.loop G τ opcode fuel ops a ws = some (a', rest) → LeadOk G ops a → ∀ u0, AccWords a u0 →
    ∃ used, ws = used ++ rest ∧ AccWords a' (u0 ++ used)
  | 0, _, _, _, _, _, h, _, _, _ => by simp only [Spec.loop] at h; cases h
  | fuel + 1, [], a, a', ws, rest, h, _, u0, h0 => by
    simp only [Spec.loop] at h
    cases h
    exact ⟨[], rfl, by simpa using h0⟩
  | fuel + 1, (k, q) :: ops, a, a', ws, rest, h, hlead, u0, h0 => by
    unfold Spec.loop at h
    by_cases hemp : ws.isEmpty = true
    · simp only [hemp, Bool.not_true, Bool.false_eq_true, if_false] at h
      split at h
      · cases h
      · cases h; exact ⟨[], by simp, by simpa using h0⟩
    · have hemp' : ws.isEmpty = false := by simpa using hemp
      simp only [hemp', Bool.not_false, if_true] at h
      cases h1 : Spec.one G τ opcode k a ws with
      | none => rw [h1] at h; cases h
      | some p =>
        obtain ⟨a1, t⟩ := p
        rw [h1] at h
        dsimp only at h
        have hk12 : (k == G.kIdResult) = true → (k == G.kIdResultType) = false := by
          intro hk2
          rw [beq_iff_eq] at hk2
          rw [hk2]; exact hne
        have hrt : (k == G.kIdResultType) = true → a.rtype = none ∧ a.rid = none ∧ a.ops = [] := by
          intro hk1
          simp only [LeadOk, hk1, if_true] at hlead
          exact ⟨hlead.2.1, hlead.2.2.1, hlead.2.2.2.1⟩
        have hrid : (k == G.kIdResult) = true → a.rid = none ∧ a.ops = [] := by
          intro hk2
          simp only [LeadOk, hk12 hk2, hk2, Bool.false_eq_true, if_false, if_true] at hlead
          exact ⟨hlead.2.1, hlead.2.2.1⟩
        obtain ⟨u1, e1, w1⟩ := one_words G hex τ opcode k a a1 ws t h1 hrt hrid u0 h0
        by_cases hq2 : (q == 2) = true
        · simp only [hq2, if_true] at h
          have hnores : NoRes G ((k, q) :: ops) := by
            by_cases hk1 : (k == G.kIdResultType) = true
            · simp only [LeadOk, hk1, if_true] at hlead
              rw [hlead.1] at hq2; cases hq2
            · by_cases hk2 : (k == G.kIdResult) = true
              · simp only [LeadOk, hk1, hk2, Bool.false_eq_true, if_false, if_true] at hlead
                rw [hlead.1] at hq2; cases hq2
              · simpa only [LeadOk, hk1, hk2, Bool.false_eq_true, if_false] using hlead
          obtain ⟨u2, e2, w2⟩ := loop_words G hex τ opcode hne fuel ((k, q) :: ops) a1 a' t rest h
            (leadOk_of_noRes G _ a1 hnores) (u0 ++ u1) w1
          exact ⟨u1 ++ u2, by rw [e1, e2, List.append_assoc], by rw [← List.append_assoc]; exact w2⟩
        · simp only [hq2, Bool.false_eq_true, if_false] at h
          have hlead1 : LeadOk G ops a1 := by
            by_cases hk1 : (k == G.kIdResultType) = true
            · simp only [LeadOk, hk1, if_true] at hlead
              obtain ⟨_, _, hrid0, hops0, hrest⟩ := hlead
              obtain ⟨e1', e2'⟩ := one_rtype G τ opcode k a a1 ws t hk1 h1
              cases ops with
              | nil => trivial
              | cons o2 rest2 =>
                obtain ⟨k2, q2⟩ := o2
                dsimp only at hrest
                by_cases hk22 : (k2 == G.kIdResult) = true
                · simp only [hk22, if_true] at hrest
                  have hk21 : (k2 == G.kIdResultType) = false := by
                    rw [beq_iff_eq] at hk22; rw [hk22]; exact hne
                  simp only [LeadOk, hk21, hk22, Bool.false_eq_true, if_false, if_true]
                  exact ⟨hrest.1, by rw [e1']; exact hrid0, by rw [e2']; exact hops0, hrest.2⟩
                · simp only [hk22, Bool.false_eq_true, if_false] at hrest
                  exact leadOk_of_noRes G _ a1 hrest
            · by_cases hk2 : (k == G.kIdResult) = true
              · simp only [LeadOk, hk1, hk2, Bool.false_eq_true, if_false, if_true] at hlead
                exact leadOk_of_noRes G _ a1 hlead.2.2.2
              · have : NoRes G ((k, q) :: ops) := by
                  simpa only [LeadOk, hk1, hk2, Bool.false_eq_true, if_false] using hlead
                exact leadOk_of_noRes G _ a1 this.tail
          obtain ⟨u2, e2, w2⟩ := loop_words G hex τ opcode hne fuel ops a1 a' t rest h hlead1 (u0 ++ u1) w1
          exact ⟨u1 ++ u2, by rw [e1, e2, List.append_assoc], by rw [← List.append_assoc]; exact w2⟩

/-- the words of an instruction -/
def InstWords (i : Inst) (ws : List Nat) : Prop :=
  ∃ w0 ops, ws = w0 :: (i.rtype.toList ++ i.rid.toList ++ ops) ∧ w0 / 65536 = ws.length ∧ w0 % 65536 = i.opcode ∧
    OpsWords i.operands ops

/-- **C01 (instruction level, recogniser).** What is accepted as instruction `i` is a prefix of the words with `InstWords i`. -/
theorem inst_words (G : Tables) (good : GoodTables G) (τ : Tracker) (ws : List Nat) (i : Inst) (rest : List Nat)
    (h : Spec.inst G τ ws = some (i, rest)) : ∃ used, ws = used ++ rest ∧ InstWords i used := by
  unfold Spec.inst at h
  cases ws with
  | nil => cases h
  | cons w0 t =>
    dsimp only at h
    split at h
    · cases h
    · rename_i hwc
      cases hlook : lookupOpcode G.core (w0 % 65536) with
      | none => rw [hlook] at h; cases h
      | some e =>
        rw [hlook] at h
        dsimp only at h
        split at h
        · cases h
        · rename_i hfit
          cases hl : Spec.loop G τ e.opcode (w0 / 65536 + e.ops.length + 1) e.ops ⟨none, none, []⟩ (t.take (w0 / 65536 - 1)) with
          | none => rw [hl] at h; cases h
          | some p =>
            obtain ⟨a, r0⟩ := p
            rw [hl] at h
            cases r0 with
            | cons _ _ => cases h
            | nil =>
              cases h
              obtain ⟨hmem, hop⟩ := lookupOpcode_some _ _ _ hlook
              obtain ⟨used, e1, ops, hu, hw⟩ := loop_words G good.enums τ e.opcode good.distinct _ e.ops _ a _ [] hl
                (leadOk_of_resultsLead G e.ops (good.lead e hmem)) [] ⟨[], rfl, OpsWords.nil⟩
              simp only [List.nil_append, List.append_nil] at e1 hu
              have hwc0 : w0 / 65536 ≠ 0 := by simpa using hwc
              have hlen : (t.take (w0 / 65536 - 1)).length = w0 / 65536 - 1 := by rw [List.length_take]; omega
              refine ⟨w0 :: t.take (w0 / 65536 - 1), by simp, w0, ops, ?_, ?_, hop.symm, hw⟩
              · rw [e1, hu]
              · simp only [List.length_cons, hlen]; omega

/-! ### the assembler's output is an encoding too -/

theorem packStr_words (bs : List Nat) (hb : ∀ b ∈ bs, b < 256) : OpWords (.s bs) (packStr bs) := by
  obtain ⟨h1, h2⟩ := packStr_bytes bs.length bs rfl hb
  refine ⟨h2, ?_⟩
  rw [h1]
  have hrep : List.replicate (4 - bs.length % 4) 0 = 0 :: List.replicate (3 - bs.length % 4) 0 := by
    have : 4 - bs.length % 4 = (3 - bs.length % 4) + 1 := by omega
    rw [this, List.replicate_succ]
  rw [hrep, List.take_length_add_append]
  simp

/-- operands whose strings are byte strings and whose 64-bit literals fit 64 bits -/
def OperandOk : Operand → Prop
  | .w _ _ => True
  | .q v => v < 18446744073709551616
  | .s bs => ∀ b ∈ bs, b < 256

theorem encodeOperand_words (o : Operand) (ho : OperandOk o) : OpWords o (encodeOperand o) := by
  cases o with
  | w v x => rfl
  | q v =>
    refine ⟨v % 4294967296, v / 4294967296, rfl, ?_⟩
    simp only [OperandOk] at ho
    omega
  | s bs => exact packStr_words bs ho

theorem encOps_words : ∀ (os : List Operand), (∀ o ∈ os, OperandOk o) → OpsWords os (encOps os)
  | [], _ => OpsWords.nil
  | o :: os, h => by
    rw [encOps_cons]
    exact OpsWords.cons (encodeOperand_words o (h o (by simp))) (encOps_words os (fun x hx => h x (by simp [hx])))

/-- **the assembler emits an encoding of the instruction** (for a word count that fits 16 bits) -/
theorem assemble_words (i : Inst) (hop : i.opcode < 65536) (hlen : (assembleInst i).length < 65536)
    (hops : ∀ o ∈ i.operands, OperandOk o) : InstWords i (assembleInst i) := by
  obtain ⟨w0, body, hasm, h1, h2, hbody⟩ := C02_first_word i hop hlen
  refine ⟨w0, encOps i.operands, ?_, h1, h2, encOps_words i.operands hops⟩
  rw [hasm, hbody]; rfl

/-! ### two encodings of the same instruction agree up to string padding -/

theorem opWords_agree (o : Operand) (u v : List Nat) (hu : OpWords o u) (hv : OpWords o v)
    (hwu : WordsOk u) (hwv : WordsOk v) :
    u.length = v.length ∧
    (match o with
     | .s bs => (u.flatMap Spec.wordBytes).take (bs.length + 1) = (v.flatMap Spec.wordBytes).take (bs.length + 1)
     | _ => u = v) := by
  cases o with
  | w x y => simp only [OpWords] at hu hv; subst hu; subst hv; exact ⟨rfl, rfl⟩
  | q x =>
    obtain ⟨lo, hi, e1, f1⟩ := hu
    obtain ⟨lo', hi', e2, f2⟩ := hv
    subst e1; subst e2
    have a1 := hwu lo (by simp); have a2 := hwu hi (by simp)
    have b1 := hwv lo' (by simp); have b2 := hwv hi' (by simp)
    refine ⟨rfl, ?_⟩
    dsimp only
    have : lo = lo' ∧ hi = hi' := by omega
    rw [this.1, this.2]
  | s bs =>
    obtain ⟨l1, b1⟩ := hu
    obtain ⟨l2, b2⟩ := hv
    exact ⟨by rw [l1, l2], by dsimp only; rw [b1, b2]⟩

/-- **C01 (instruction level).** Two word lists that both encode instruction `i` have the same length and the same
first word, result type and result id. (Operand by operand they agree by `opWords_agree`: equal words, except inside a
string where the bytes up to and including the NUL agree.) -/
theorem instWords_agree (i : Inst) (u v : List Nat) (hu : InstWords i u) (hv : InstWords i v)
    (hwu : WordsOk u) (hwv : WordsOk v) :
    u.length = v.length ∧ u.head? = v.head? ∧
    u.take (1 + i.rtype.toList.length + i.rid.toList.length) = v.take (1 + i.rtype.toList.length + i.rid.toList.length) := by
  obtain ⟨w0, ops, e1, c1, o1, w1⟩ := hu
  obtain ⟨w0', ops', e2, c2, o2, w2⟩ := hv
  -- operand encodings have equal lengths
  have hlen : ∀ (os : List Operand) (a b : List Nat), OpsWords os a → OpsWords os b → a.length = b.length := by
    intro os
    induction os with
    | nil => intro a b ha hb; cases ha; cases hb; rfl
    | cons o os ih =>
      intro a b ha hb
      cases ha with
      | cons ho1 hos1 =>
        cases hb with
        | cons ho2 hos2 =>
          rename_i wa wsa wb wsb
          have l1 : wa.length = wb.length := by
            cases o with
            | w x y => simp only [OpWords] at ho1 ho2; rw [ho1, ho2]
            | q x =>
              obtain ⟨_, _, e1, _⟩ := ho1
              obtain ⟨_, _, e2, _⟩ := ho2
              rw [e1, e2]; rfl
            | s bs => rw [ho1.1, ho2.1]
          simp only [List.length_append, l1, ih wsa wsb hos1 hos2]
  have hl := hlen i.operands ops ops' w1 w2
  have hlen_uv : u.length = v.length := by
    rw [e1, e2]; simp only [List.length_cons, List.length_append, hl]
  have hw0 : w0 = w0' := by
    have a := hwu w0 (by rw [e1]; simp)
    have b := hwv w0' (by rw [e2]; simp)
    have : w0 / 65536 = w0' / 65536 := by rw [c1, c2, hlen_uv]
    omega
  refine ⟨hlen_uv, by rw [e1, e2, hw0]; rfl, ?_⟩
  rw [e1, e2, hw0]
  have : ∀ (pre a b : List Nat), (w0' :: (pre ++ a)).take (1 + pre.length) = (w0' :: (pre ++ b)).take (1 + pre.length) := by
    intro pre a b
    rw [Nat.add_comm, List.take_succ_cons, List.take_succ_cons, List.take_left' rfl, List.take_left' rfl]
  have := this (i.rtype.toList ++ i.rid.toList) ops ops'
  simpa [List.append_assoc, Nat.add_assoc] using this

/-- **C01 (instruction level, parser model).** Whenever `parse_inst` delivers `i` from a state between instructions that
views the stream words `w0 :: t`, the words it consumed are a prefix `used` of them with `InstWords i used`, and it stops in
front of the remaining words. With `assemble_words` and `instWords_agree`: assembling `i` gives those same words back, up
to the bytes after a string's NUL terminator. -/
theorem parseInst_words (G : Tables) (good : GoodTables G) (τ : Tracker) (idx : Nat) (B : List Nat) (d : DState) (w0 : Nat)
    (t : List Nat) (hv : Rspirv.Props.ParserSpec.SView B d (w0 :: t)) (i : Inst) (d' : DState)
    (h : parseInst G τ idx d = (.ok i, d')) :
    ∃ used rest, w0 :: t = used ++ rest ∧ InstWords i used ∧ Rspirv.Props.ParserSpec.SView B d' rest := by
  by_cases hfit : w0 / 65536 - 1 ≤ t.length
  · have href := Rspirv.Props.ParserSpec.parseInst_ref G good.kinds τ idx d w0 t hv hfit
    cases hs : Spec.inst G τ (w0 :: t) with
    | none => rw [hs] at href; exact absurd h (href i d')
    | some p =>
      obtain ⟨i2, rest⟩ := p
      rw [hs] at href
      obtain ⟨d2, h2, hv2⟩ := href
      rw [h] at h2
      cases h2
      obtain ⟨used, e1, w1⟩ := inst_words G good τ (w0 :: t) i rest hs
      exact ⟨used, rest, e1, w1, hv2⟩
  · exact absurd h (Rspirv.Props.ParserSpec.parseInst_overrun G τ idx d w0 t hv (by omega) i d')

end Rspirv.Props.C01Words
