import Rspirv.Props.C01
import Rspirv.Props.C01Words
/-! C01: module level (`Props/C01.lean`) and instruction level (`Props/C01Words.lean`) together -/
