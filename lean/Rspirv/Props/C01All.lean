import Rspirv.Props.C01
import Rspirv.Props.C01Words
import Rspirv.Props.RoundTrip
import Rspirv.Props.C01End
import Rspirv.Props.C01Layout
import Rspirv.Props.C01Full
/-! C01: module level (`Props/C01.lean`), instruction level (`Props/C01Words.lean`) and reload (`Props/Reload.lean`,
`Props/RoundTrip.lean`, `Props/C01Layout.lean`) and the end-to-end statement (`Props/C01Full.lean`) together -/
