import Rspirv.Generated.Spirv
import Rspirv.Reference.PinnedSpirv
/-!
# C08 — spirv enums and bit-masks map numbers and names exactly as declared

Instantiation of the generic theorems of `Rspirv.Generic.Enum` on the tables regenerated from
`spirv/autogen_spirv.rs` on every run. The only thing a source change can break here are the two
`decide +kernel` table checks.
-/
namespace Rspirv.Props.C08
open Rspirv Rspirv.Generated.Spirv

deriving instance DecidableEq for EnumSpec
deriving instance DecidableEq for MaskSpec

/-- table check (kernel evaluation over all 45 enums / 360 arms / 1915 enumerants) -/
theorem enums_wf : enums.all (fun E => E.rangesExact && E.namesExact) = true := by decide +kernel

/-- **C08 (numbers).** For every enumeration of the crate and every natural number `n` (in particular all
2^32 words): `from_u32 n` yields a value iff `n` is a declared discriminant, and that value converts back
to `n`. Hence no conversion materialises an undeclared discriminant. -/
theorem C08_enum (E : EnumSpec) (hE : E ∈ enums) (n : Nat) :
    ((E.fromU32 n).isSome ↔ n ∈ E.declVals) ∧ (∀ d, E.fromU32 n = some d → d = n) := by
  have h := List.all_eq_true.1 enums_wf E hE
  simp only [Bool.and_eq_true] at h
  exact E.fromU32_exact h.1 n

/-- **C08 (names).** Every variant's textual name parses back to it; every alias parses to its target. -/
theorem C08_names (E : EnumSpec) (hE : E ∈ enums) (hf : E.hasFromStr = true) :
    (∀ d ∈ E.decl, E.fromStrName d.1 = some d.1) ∧
    (∀ a ∈ E.aliases, E.fromStrName a.1 = some a.2) := by
  have h := List.all_eq_true.1 enums_wf E hE
  simp only [Bool.and_eq_true] at h
  exact E.names_exact hf h.2

/-- **C08 (masks).** For every bit-mask type and every `n`: accepted iff all set bits are declared. -/
theorem C08_mask (M : MaskSpec) (_ : M ∈ masks) (n : Nat) :
    ((M.fromBits n).isSome ↔ ∀ i, n.testBit i = true → ∃ c ∈ M.consts, c.2.testBit i = true) ∧
    (∀ v, M.fromBits n = some v → v = n) := M.fromBits_exact n

/-- **C08 (pinned).** Declared values and names equal the snapshot of the pinned SDK release. -/
theorem C08_pinned : enums = Rspirv.Reference.PinnedSpirv.enums ∧ masks = Rspirv.Reference.PinnedSpirv.masks ∧
    const_MAGIC_NUMBER = 0x07230203 := by decide +kernel

/-- non-vacuity: the hypotheses are met by concrete, non-trivial members -/
example : enum_Capability ∈ enums ∧ enum_Capability.hasFromStr = true ∧ enum_Capability.decl.length > 200 := by
  decide +kernel
example : (enum_Dim.fromU32 3).isSome = true ∧ (enum_Dim.fromU32 7).isSome = false ∧
    (enum_FPEncoding.fromU32 0x7fffffff) = some 0x7fffffff := by decide +kernel
example : (mask_ImageOperands.fromBits 65537).isSome = true ∧ (mask_ImageOperands.fromBits 32768).isSome = false := by
  decide +kernel

end Rspirv.Props.C08
