import Rspirv.Model.LoadBytes
import Rspirv.Model.BuilderHand
import Rspirv.Generated.Operands
import Rspirv.Generated.Extracted
import Rspirv.Generated.Grammar
import Rspirv.Generated.Spirv
import Rspirv.Generated.Disas
import Rspirv.Generated.Reflect
import Rspirv.Generated.Traversals
import Rspirv.Generated.Lift
/-! The table sets the models are instantiated with: everything comes from `Rspirv.Generated.*`, i.e. from the working
tree of this run. The driver executes the models on exactly these instances and the `Props` files prove their table
checks about exactly these instances. -/
namespace Rspirv.Instances
open Rspirv Rspirv.Model

def theTables : Tables :=
  { core := Rspirv.Generated.Grammar.coreTable
    kindActs := Rspirv.Generated.Operands.kindActs
    enums := Rspirv.Generated.Spirv.enums
    masks := Rspirv.Generated.Spirv.masks
    isType := fun o => Rspirv.Generated.Extracted.reflectTable.any (fun r => r.1 == o && r.2.testBit 4)
    kIdResultType := Rspirv.Generated.Grammar.kind_IdResultType
    kIdResult := Rspirv.Generated.Grammar.kind_IdResult
    kCtxNumber := Rspirv.Generated.Grammar.kind_LiteralContextDependentNumber
    kPairLitId := Rspirv.Generated.Grammar.kind_PairLiteralIntegerIdRef
    kSpecOp := Rspirv.Generated.Grammar.kind_LiteralSpecConstantOpInteger
    vIdRef := Rspirv.Generated.Operands.v_IdRef
    vLit32 := Rspirv.Generated.Operands.v_LiteralBit32
    vSpecOp := Rspirv.Generated.Operands.v_LiteralSpecConstantOpInteger
    opConstant := Rspirv.Generated.Operands.op_Constant
    opSpecConstant := Rspirv.Generated.Operands.op_SpecConstant
    opSwitch := Rspirv.Generated.Operands.op_Switch
    opTypeInt := Rspirv.Generated.Operands.op_TypeInt
    opTypeFloat := Rspirv.Generated.Operands.op_TypeFloat
    magic := Rspirv.Generated.Spirv.const_MAGIC_NUMBER }

def reflectBit (i : Nat) (o : Nat) : Bool :=
  Rspirv.Generated.Extracted.reflectTable.any (fun r => r.1 == o && r.2.testBit i)

open Rspirv.Generated.Operands in
def theLTables : LTables :=
  { opCapability := op_Capability, opExtension := op_Extension, opExtInstImport := op_ExtInstImport
    opMemoryModel := op_MemoryModel, opEntryPoint := op_EntryPoint, opExecutionMode := op_ExecutionMode
    opExecutionModeId := op_ExecutionModeId, opString := op_String, opSourceExtension := op_SourceExtension
    opSource := op_Source, opSourceContinued := op_SourceContinued, opName := op_Name, opMemberName := op_MemberName
    opModuleProcessed := op_ModuleProcessed, opVariable := op_Variable, opUndef := op_Undef
    opFunction := op_Function, opFunctionEnd := op_FunctionEnd, opFunctionParameter := op_FunctionParameter
    opLabel := op_Label
    isLocationDebug := reflectBit 0, isAnnotation := reflectBit 3, isType := reflectBit 4
    isConstant := reflectBit 5, isBlockTerminator := reflectBit 11 }

open Rspirv.Generated.Operands in
def theDTables : DisTables :=
  { enums := Rspirv.Generated.Spirv.enums, masks := Rspirv.Generated.Spirv.masks
    operandVariants := operandVariants
    maskNames := Rspirv.Generated.Disas.maskNames, forwarded := Rspirv.Generated.Disas.forwarded
    idDispatch := Rspirv.Generated.Disas.idDispatch
    displayArms := Rspirv.Generated.Reflect.displayArms
    globalOrder := Rspirv.Generated.Traversals.globalIter
    core := Rspirv.Generated.Grammar.coreTable, glsl := Rspirv.Generated.Grammar.glslTable
    opencl := Rspirv.Generated.Grammar.openclTable
    opEnum := Rspirv.Generated.Spirv.enum_Op
    vDim := v_Dim, opConstant := op_Constant, opExtInst := op_ExtInst, opExtInstImport := op_ExtInstImport
    opTypeInt := op_TypeInt, opTypeFloat := op_TypeFloat, vIdRef := v_IdRef, vLit32 := v_LiteralBit32
    vExtInstInteger := v_LiteralExtInstInteger
    isType := reflectBit 4 }


open Rspirv.Generated.Operands in
def theLiftTables : LiftTables :=
  { branch := Rspirv.Generated.Lift.branchArms, terminator := Rspirv.Generated.Lift.terminatorArms
    op := Rspirv.Generated.Lift.opArms, type_ := Rspirv.Generated.Lift.typeArms
    capability := Rspirv.Generated.Lift.capabilityArm, memoryModel := Rspirv.Generated.Lift.memoryModelArm
    function := Rspirv.Generated.Lift.functionArm
    vLit64 := v_LiteralBit64, vLitString := v_LiteralString, vIdRef := v_IdRef, vLit32 := v_LiteralBit32
    vSamplerAddressingMode := v_SamplerAddressingMode, vSamplerFilterMode := v_SamplerFilterMode
    opLine := op_Line, opPhi := op_Phi, opConstantTrue := op_ConstantTrue, opConstantFalse := op_ConstantFalse
    opConstant := op_Constant, opConstantComposite := op_ConstantComposite, opConstantSampler := op_ConstantSampler
    opConstantNull := op_ConstantNull
    opConstantCompositeContinuedINTEL := op_ConstantCompositeContinuedINTEL
    opSpecConstantCompositeContinuedINTEL := op_SpecConstantCompositeContinuedINTEL
    nInt := nameCode "Int", nFloat := nameCode "Float", nWidth := nameCode "width", nSignedness := nameCode "signedness"
    nFpEncoding := nameCode "floating_point_encoding", nFunctionControl := nameCode "function_control"
    nCapability := nameCode "capability" }

open Rspirv.Generated.Operands in
def theBTables : BTables :=
  { opFunction := op_Function, opFunctionEnd := op_FunctionEnd, opFunctionParameter := op_FunctionParameter
    opLabel := op_Label, opName := op_Name, vFunctionControl := v_FunctionControl, vIdRef := v_IdRef
    magic := Rspirv.Generated.Spirv.const_MAGIC_NUMBER
    defaultVersion := Rspirv.Generated.Spirv.const_MAJOR_VERSION * 65536 + Rspirv.Generated.Spirv.const_MINOR_VERSION * 256 }

open Rspirv.Generated.Operands in
def theHTables : HTables :=
  { opCapability := op_Capability, opExtension := op_Extension, opExtInstImport := op_ExtInstImport
    opMemoryModel := op_MemoryModel, opEntryPoint := op_EntryPoint, opExecutionMode := op_ExecutionMode
    opExecutionModeId := op_ExecutionModeId, opExtInst := op_ExtInst, opLine := op_Line, opNoLine := op_NoLine
    opDecorationGroup := op_DecorationGroup, opString := op_String, opTypeForwardPointer := op_TypeForwardPointer
    opTypePointer := op_TypePointer, opTypeOpaque := op_TypeOpaque, opConstant := op_Constant
    opSpecConstant := op_SpecConstant, opVariable := op_Variable, opUndef := op_Undef
    vCapability := v_Capability, vAddressingModel := v_AddressingModel, vMemoryModel := v_MemoryModel
    vExecutionModel := v_ExecutionModel, vExecutionMode := v_ExecutionMode, vStorageClass := v_StorageClass
    vIdRef := v_IdRef, vLit32 := v_LiteralBit32, vExtInstInteger := v_LiteralExtInstInteger }

end Rspirv.Instances
