import Rspirv.Model.Module
/- Generic list algebra behind C15: valid for every module value and every instruction type. -/
namespace Rspirv.Model
variable {ι : Type}

theorem flatMap_flatMap {α β γ} (l : List α) (f : α → List β) (g : β → List γ) :
    (l.flatMap f).flatMap g = l.flatMap (fun x => (f x).flatMap g) := by
  induction l with
  | nil => rfl
  | cons a t ih => simp [List.flatMap_cons, List.flatMap_append, ih]

theorem Block.asm_eq (bo : List Nat) (asm : ι → List Nat) (b : Block ι) :
    Block.asm bo asm b = (Block.chain bo b).flatMap asm := by
  simp [Block.asm, Block.chain, flatMap_flatMap]

theorem Function.asmPiece_eq (bo : List Nat) (asm : ι → List Nat) (f : Function ι) (p : Nat) :
    f.asmPiece bo asm p = (f.piece bo p).flatMap asm := by
  unfold Function.asmPiece Function.piece
  split
  · rfl
  · rfl
  · rw [flatMap_flatMap]; congr 1; funext b; exact Block.asm_eq bo asm b
  · rfl
  · rfl

theorem Function.asm_eq (fo bo : List Nat) (asm : ι → List Nat) (f : Function ι) :
    Function.asm fo bo asm f = (Function.chain fo bo f).flatMap asm := by
  simp only [Function.asm, Function.chain, flatMap_flatMap]
  congr 1; funext p; exact Function.asmPiece_eq bo asm f p

/-- the assembly of a module whose `assemble_into` runs "header, globals, functions" is the header words
followed by the assembly of every instruction of the all-instructions traversal, provided the traversal
chains the same sections and ends with the functions -/
theorem Module.asm_eq (ah go fo bo : List Nat) (asm : ι → List Nat) (m : Module ι) :
    Module.asm [0, 1, 2] ah go fo bo asm m =
      (m.header.map (Header.asm ah)).getD [] ++ (m.allChain go true fo bo).flatMap asm := by
  simp only [Module.asm, Module.allChain, List.flatMap_cons, List.flatMap_nil, List.append_nil, Module.asmPiece,
    if_true, List.flatMap_append, Module.globalChain, flatMap_flatMap]
  congr 2
  congr 1; funext f; exact Function.asm_eq fo bo asm f

end Rspirv.Model
