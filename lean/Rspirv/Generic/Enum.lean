import Rspirv.Generic.Sort
/-
Generic model of the generated `spirv` enumerations and bit-masks, and the theorems that lift a
Boolean well-formedness check of the (regenerated) tables to all `n : Nat`.
-/
namespace Rspirv

/-- One arm of a generated `from_u32` match, in source order.
`range lo hi`  : `lo..=hi => transmute(n)`      (the value's discriminant is `n`)
`lit v k`      : `v => transmute(k)`            (discriminant `k`)
`named v nm`   : `v => Self::nm`                (discriminant = declared value of `nm`) -/
inductive Arm where
  | range (lo hi : Nat)
  | lit (v k : Nat)
  | named (v nm : Nat)
deriving Repr, DecidableEq

structure EnumSpec where
  name : Nat
  /-- declared variants `(name code, discriminant)` in declaration order -/
  decl : List (Nat × Nat)
  arms : List Arm
  /-- associated constants `(alias name, target variant name)` -/
  aliases : List (Nat × Nat)
  /-- `FromStr` arms `(string, variant name)` in source order -/
  fromStr : List (Nat × Nat)
  hasFromStr : Bool
deriving Repr

def lookupNat : List (Nat × Nat) → Nat → Option Nat
  | [], _ => none
  | (k, v) :: t, x => if k = x then some v else lookupNat t x

theorem lookupNat_mem : ∀ (l : List (Nat × Nat)) (k v : Nat), lookupNat l k = some v → (k, v) ∈ l
  | [], _, _, h => by simp [lookupNat] at h
  | (k', v') :: t, k, v, h => by
    unfold lookupNat at h
    split at h
    · rename_i hk; cases h; subst hk; exact List.mem_cons_self
    · exact List.mem_cons_of_mem _ (lookupNat_mem t k v h)

namespace EnumSpec

def declVals (E : EnumSpec) : List Nat := E.decl.map (·.2)

/-- discriminant of the value an arm yields on `n`, if it matches -/
def armHit (E : EnumSpec) (n : Nat) : Arm → Option Nat
  | .range lo hi => if lo ≤ n ∧ n ≤ hi then some n else none
  | .lit v k => if n = v then some k else none
  | .named v nm => if n = v then lookupNat E.decl nm else none

/-- `E::from_u32(n)`: first matching arm (Rust `match` semantics); the result is the discriminant
of the produced value (`transmute` is the identity on the representation of a `#[repr(u32)]` enum). -/
def fromU32 (E : EnumSpec) (n : Nat) : Option Nat := E.arms.findSome? (E.armHit n)

/-- numbers an arm accepts, paired with the discriminant it produces (ranges are capped so that a
runaway arm such as `0..=u32::MAX` fails the check instead of exhausting memory) -/
def armPairs (E : EnumSpec) : Arm → Option (List (Nat × Nat))
  | .range lo hi => if hi - lo < 65536 then some ((List.range' lo (hi + 1 - lo)).map (fun n => (n, n))) else none
  | .lit v k => some [(v, k)]
  | .named v nm => (lookupNat E.decl nm).map (fun k => [(v, k)])

def allPairs (E : EnumSpec) : List Arm → Option (List (Nat × Nat))
  | [] => some []
  | a :: t => match E.armPairs a, allPairs E t with
    | some x, some y => some (x ++ y)
    | _, _ => none

/-- Boolean well-formedness of `from_u32` against the declaration:
every accepted number yields itself, and the accepted numbers are exactly the declared discriminants. -/
def rangesExact (E : EnumSpec) : Bool :=
  match E.allPairs E.arms with
  | none => false
  | some ps => ps.all (fun p => p.1 == p.2) && sameSet (ps.map (·.1)) E.declVals

theorem armHit_pairs (E : EnumSpec) (a : Arm) (ps : List (Nat × Nat)) (h : E.armPairs a = some ps)
    (n d : Nat) : E.armHit n a = some d ↔ (n, d) ∈ ps := by
  cases a with
  | range lo hi =>
    simp only [armPairs] at h
    split at h
    · cases h
      simp only [armHit, List.mem_map, List.mem_range', Prod.mk.injEq]
      constructor
      · intro hh
        split at hh
        · cases hh
          rename_i hr
          exact ⟨n, ⟨n - lo, by omega, by omega⟩, rfl, rfl⟩
        · cases hh
      · rintro ⟨m, ⟨i, hi1, hi2⟩, rfl, rfl⟩
        rw [if_pos (by omega)]
    · cases h
  | lit v k =>
    simp only [armPairs, Option.some.injEq] at h
    subst h
    simp only [armHit, List.mem_singleton, Prod.mk.injEq]
    constructor
    · intro hh; split at hh
      · cases hh; rename_i e; exact ⟨e, rfl⟩
      · cases hh
    · rintro ⟨rfl, rfl⟩; simp
  | named v nm =>
    simp only [armPairs] at h
    cases hl : lookupNat E.decl nm with
    | none => simp [hl] at h
    | some k =>
      simp only [hl, Option.map_some, Option.some.injEq] at h
      subst h
      simp only [armHit, hl, List.mem_singleton, Prod.mk.injEq]
      constructor
      · intro hh; split at hh
        · cases hh; rename_i e; exact ⟨e, rfl⟩
        · cases hh
      · rintro ⟨rfl, rfl⟩; simp

theorem findSome_pairs (E : EnumSpec) : ∀ (arms : List Arm) (ps : List (Nat × Nat)),
    E.allPairs arms = some ps → ∀ n,
      ((arms.findSome? (E.armHit n)).isSome ↔ ∃ d, (n, d) ∈ ps) ∧
      (∀ d, arms.findSome? (E.armHit n) = some d → (n, d) ∈ ps)
  | [], ps, h, n => by
    simp only [allPairs, Option.some.injEq] at h; subst h; simp
  | a :: t, ps, h, n => by
    simp only [allPairs] at h
    cases ha : E.armPairs a with
    | none => simp [ha] at h
    | some x =>
      cases ht : E.allPairs t with
      | none => simp [ha, ht] at h
      | some y =>
        simp only [ha, ht, Option.some.injEq] at h
        subst h
        have ih := findSome_pairs E t y ht n
        have hx := armHit_pairs E a x ha n
        simp only [List.findSome?_cons]
        cases hh : E.armHit n a with
        | some d0 =>
          refine ⟨⟨fun _ => ⟨d0, List.mem_append_left _ ((hx d0).1 hh)⟩, fun _ => rfl⟩, ?_⟩
          intro d hd; cases hd
          exact List.mem_append_left _ ((hx d0).1 hh)
        | none =>
          refine ⟨⟨fun hs => ?_, fun hex => ?_⟩, fun d hd => List.mem_append_right _ (ih.2 d hd)⟩
          · obtain ⟨d, hd⟩ := ih.1.1 hs
            exact ⟨d, List.mem_append_right _ hd⟩
          · obtain ⟨d, hd⟩ := hex
            rcases List.mem_append.1 hd with h1 | h2
            · have := (hx d).2 h1; rw [hh] at this; cases this
            · exact ih.1.2 ⟨d, h2⟩

/-- **G-ranges.** If the Boolean check passes, `from_u32` accepts exactly the declared discriminants
and the value it returns converts back to the number it was made from — for every natural number. -/
theorem fromU32_exact (E : EnumSpec) (h : E.rangesExact = true) (n : Nat) :
    ((E.fromU32 n).isSome ↔ n ∈ E.declVals) ∧ (∀ d, E.fromU32 n = some d → d = n) := by
  unfold rangesExact at h
  cases hp : E.allPairs E.arms with
  | none => simp [hp] at h
  | some ps =>
    simp only [hp, Bool.and_eq_true, List.all_eq_true, beq_iff_eq] at h
    obtain ⟨hdiag, hset⟩ := h
    have key := findSome_pairs E E.arms ps hp n
    have hmem := mem_iff_of_sameSet _ _ hset n
    constructor
    · unfold fromU32
      rw [key.1, ← hmem]
      simp only [List.mem_map]
      constructor
      · rintro ⟨d, hd⟩; exact ⟨(n, d), hd, rfl⟩
      · rintro ⟨⟨a, b⟩, hab, rfl⟩; exact ⟨b, hab⟩
    · intro d hd
      have := hdiag (n, d) (key.2 d hd)
      exact this.symm

/-! ### names -/

/-- `s.parse::<E>()`: first matching string arm; result = name of the variant. -/
def fromStrName (E : EnumSpec) (s : Nat) : Option Nat := lookupNat E.fromStr s

/-- value of an associated constant or variant name -/
def valueOf (E : EnumSpec) (nm : Nat) : Option Nat := lookupNat E.decl nm

/-- Boolean check for the name clauses: the `FromStr` arms are, as a set, exactly
`{(v, v) | v declared} ∪ {(a, t) | a aliases t}`, their strings are pairwise distinct, and every alias
target is a declared variant. Pairs are compared through an injective pairing of their codes. -/
def namesExact (E : EnumSpec) : Bool :=
  !E.hasFromStr ||
  (nodupCheck (E.fromStr.map (·.1)) &&
   (E.decl.map (fun d => (d.1, d.1))).isSublist E.fromStr &&
   E.aliases.isSublist E.fromStr)

theorem lookupNat_of_nodup : ∀ (l : List (Nat × Nat)), (l.map (·.1)).Nodup →
    ∀ k v, (k, v) ∈ l → lookupNat l k = some v
  | [], _, _, _, h => by cases h
  | (k', v') :: t, hn, k, v, h => by
    simp only [List.map_cons, List.nodup_cons] at hn
    unfold lookupNat
    rcases List.mem_cons.1 h with e | h'
    · cases e; simp
    · split
      · rename_i hk; subst hk
        exact absurd (List.mem_map.2 ⟨(k', v), h', rfl⟩) hn.1
      · exact lookupNat_of_nodup t hn.2 k v h'

/-- **Names.** With the Boolean check: the textual (Debug) name of every declared variant parses back to
that variant, and every declared alias parses to the variant it aliases. -/
theorem names_exact (E : EnumSpec) (hf : E.hasFromStr = true) (h : E.namesExact = true) :
    (∀ d ∈ E.decl, E.fromStrName d.1 = some d.1) ∧
    (∀ a ∈ E.aliases, E.fromStrName a.1 = some a.2) := by
  simp only [namesExact, hf, Bool.not_true, Bool.false_or, Bool.and_eq_true] at h
  obtain ⟨⟨hnd, hd⟩, hal⟩ := h
  have nd := nodup_of_check _ hnd
  have s1 := (List.isSublist_iff_sublist.1 hd).subset
  have s2 := (List.isSublist_iff_sublist.1 hal).subset
  constructor
  · intro d hd'
    exact lookupNat_of_nodup _ nd _ _ (s1 (List.mem_map.2 ⟨d, hd', rfl⟩))
  · intro a ha
    exact lookupNat_of_nodup _ nd _ _ (s2 ha)

end EnumSpec

/-! ### bit-masks -/

structure MaskSpec where
  name : Nat
  consts : List (Nat × Nat)
deriving Repr

namespace MaskSpec

def allBits (M : MaskSpec) : Nat := M.consts.foldr (fun c acc => c.2 ||| acc) 0

/-- `bitflags` 2.x `from_bits`: accepted iff no bit outside `all()` is set (documented semantics; probed
by the extractor on every single bit, on `all()` and on seeded combinations). -/
def fromBits (M : MaskSpec) (n : Nat) : Option Nat := if n &&& M.allBits = n then some n else none

theorem testBit_allBits (M : MaskSpec) (i : Nat) :
    M.allBits.testBit i = M.consts.any (fun c => c.2.testBit i) := by
  unfold allBits
  induction M.consts with
  | nil => simp
  | cons c t ih => simp [List.foldr_cons, Nat.testBit_or, ih]

/-- **G-mask.** A number is accepted iff every set bit of it is a bit of some declared constant. -/
theorem fromBits_exact (M : MaskSpec) (n : Nat) :
    ((M.fromBits n).isSome ↔ ∀ i, n.testBit i = true → ∃ c ∈ M.consts, c.2.testBit i = true) ∧
    (∀ v, M.fromBits n = some v → v = n) := by
  constructor
  · unfold fromBits
    constructor
    · intro h i hi
      split at h
      · rename_i e
        have := congrArg (fun x => x.testBit i) e
        simp only [Nat.testBit_and, hi, Bool.true_and] at this
        rw [testBit_allBits] at this
        simpa [List.any_eq_true] using this
      · cases h
    · intro h
      have : n &&& M.allBits = n := by
        apply Nat.eq_of_testBit_eq
        intro i
        simp only [Nat.testBit_and]
        cases hb : n.testBit i with
        | false => simp
        | true =>
          obtain ⟨c, hc, hci⟩ := h i hb
          rw [testBit_allBits]
          simp only [Bool.true_and, List.any_eq_true]
          exact ⟨c, hc, hci⟩
      simp [this]
  · intro v hv
    unfold fromBits at hv
    split at hv
    · cases hv; rfl
    · cases hv

end MaskSpec
end Rspirv
