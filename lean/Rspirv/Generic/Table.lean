import Rspirv.Generic.Sort
/- Grammar tables: schema, lookup model, entry well-formedness, and the generic lookup lemmas. -/
namespace Rspirv

/-- A grammar entry. `ops` are `(operand kind index, quantifier)` with quantifier 0 = One, 1 = ZeroOrOne,
2 = ZeroOrMore. Names are name codes. -/
structure Entry where
  name : Nat
  opcode : Nat
  caps : List Nat
  exts : List Nat
  ops : List (Nat × Nat)
deriving Repr, DecidableEq

/-- `iter().find(|e| e.opcode == n)` -/
def lookupOpcode (t : List Entry) (n : Nat) : Option Entry := t.find? (fun e => e.opcode == n)

theorem lookupOpcode_some (t : List Entry) (n : Nat) (e : Entry) (h : lookupOpcode t n = some e) :
    e ∈ t ∧ e.opcode = n := by
  unfold lookupOpcode at h
  exact ⟨List.mem_of_find?_eq_some h, by simpa using List.find?_some h⟩

theorem lookupOpcode_isSome (t : List Entry) (n : Nat) :
    (lookupOpcode t n).isSome ↔ n ∈ t.map (·.opcode) := by
  unfold lookupOpcode
  rw [List.find?_isSome]
  simp only [List.mem_map, beq_iff_eq]

/-- With pairwise distinct opcodes the entry found is *the* entry with that opcode. -/
theorem lookupOpcode_unique (t : List Entry) (hn : (t.map (·.opcode)).Nodup) (e : Entry) (he : e ∈ t) :
    lookupOpcode t e.opcode = some e := by
  induction t with
  | nil => cases he
  | cons a t ih =>
    simp only [List.map_cons, List.nodup_cons] at hn
    unfold lookupOpcode
    rw [List.find?_cons]
    rcases List.mem_cons.1 he with rfl | h
    · simp
    · have : (a.opcode == e.opcode) = false := by
        apply beq_false_of_ne
        intro hEq
        exact hn.1 (hEq ▸ List.mem_map.2 ⟨e, h, rfl⟩)
      rw [this]
      exact ih hn.2 h

/-! ### entry well-formedness (C09) -/

/-- kinds and quantifiers as the table check sees them -/
structure KindIx where
  idResultType : Nat
  idResult : Nat

def quantOne : Nat := 0
def quantOpt : Nat := 1
def quantMany : Nat := 2

/-- no `IdResultType`/`IdResult` in the list -/
def noResultKinds (K : KindIx) (ops : List (Nat × Nat)) : Bool :=
  ops.all (fun o => o.1 != K.idResultType && o.1 != K.idResult)

/-- at most one result type immediately followed by at most one result id, both at the front and both
required (quantifier One) -/
def resultsLead (K : KindIx) : List (Nat × Nat) → Bool
  | [] => true
  | o :: t =>
    if o.1 == K.idResultType then
      o.2 == quantOne &&
      (match t with
       | [] => true
       | o2 :: t2 => if o2.1 == K.idResult then o2.2 == quantOne && noResultKinds K t2 else noResultKinds K (o2 :: t2))
    else if o.1 == K.idResult then o.2 == quantOne && noResultKinds K t
    else noResultKinds K (o :: t)

/-- once an operand is optional or variadic no later operand is required; a variadic operand is last -/
def quantShape : List (Nat × Nat) → Bool
  | [] => true
  | o :: t =>
    if o.2 == quantOne then quantShape t
    else if o.2 == quantOpt then t.all (fun p => p.2 != quantOne) && quantShape t
    else o.2 == quantMany && t.isEmpty

def Entry.wf (K : KindIx) (nkinds : Nat) (e : Entry) : Bool :=
  resultsLead K e.ops && quantShape e.ops && e.ops.all (fun o => decide (o.1 < nkinds) && decide (o.2 ≤ 2))

/-- declarative reading of `quantShape`, used to state C09 -/
def QuantShape (ops : List (Nat × Nat)) : Prop :=
  (∀ i j, i < j → ∀ hi : i < ops.length, ∀ hj : j < ops.length, ops[i].2 ≠ quantOne → ops[j].2 ≠ quantOne) ∧
  (∀ i, ∀ hi : i < ops.length, ops[i].2 = quantMany → i + 1 = ops.length) ∧
  (∀ o ∈ ops, o.2 = quantOne ∨ o.2 = quantOpt ∨ o.2 = quantMany)

theorem quantShape_sound : ∀ ops, quantShape ops = true → QuantShape ops
  | [], _ => ⟨fun _ _ _ hi => absurd hi (by simp), fun _ hi => absurd hi (by simp), fun _ h => by cases h⟩
  | o :: t, h => by
    unfold quantShape at h
    by_cases h1 : o.2 = quantOne
    · simp only [h1, beq_self_eq_true, if_true] at h
      obtain ⟨a, b, c⟩ := quantShape_sound t h
      refine ⟨?_, ?_, ?_⟩
      · intro i j hij hi hj hne
        cases i with
        | zero => exact absurd h1 (by simpa using hne)
        | succ i =>
          cases j with
          | zero => omega
          | succ j =>
            simp only [List.getElem_cons_succ] at hne ⊢
            exact a i j (by omega) (by simpa using hi) (by simpa using hj) hne
      · intro i hi hm
        cases i with
        | zero => simp only [List.getElem_cons_zero] at hm; rw [h1] at hm; cases hm
        | succ i =>
          simp only [List.getElem_cons_succ] at hm
          have := b i (by simpa using hi) hm
          simp; omega
      · intro p hp
        rcases List.mem_cons.1 hp with rfl | hp
        · exact Or.inl h1
        · exact c p hp
    · have h1' : (o.2 == quantOne) = false := beq_false_of_ne h1
      simp only [h1', Bool.false_eq_true, if_false] at h
      by_cases h2 : o.2 = quantOpt
      · simp only [h2, beq_self_eq_true, if_true, Bool.and_eq_true, List.all_eq_true, bne_iff_ne, ne_eq] at h
        obtain ⟨hall, hrest⟩ := h
        obtain ⟨a, b, c⟩ := quantShape_sound t hrest
        refine ⟨?_, ?_, ?_⟩
        · intro i j hij hi hj hne
          cases j with
          | zero => omega
          | succ j =>
            simp only [List.getElem_cons_succ]
            exact hall _ (List.getElem_mem _)
        · intro i hi hm
          cases i with
          | zero => simp only [List.getElem_cons_zero] at hm; rw [h2] at hm; cases hm
          | succ i =>
            simp only [List.getElem_cons_succ] at hm
            have := b i (by simpa using hi) hm
            simp; omega
        · intro p hp
          rcases List.mem_cons.1 hp with rfl | hp
          · exact Or.inr (Or.inl h2)
          · exact c p hp
      · have h2' : (o.2 == quantOpt) = false := beq_false_of_ne h2
        simp only [h2', Bool.false_eq_true, if_false, Bool.and_eq_true, beq_iff_eq, List.isEmpty_iff] at h
        obtain ⟨hm, ht⟩ := h
        subst ht
        refine ⟨?_, ?_, ?_⟩
        · intro i j hij hi hj; simp at hi hj; omega
        · intro i hi _; simp at hi; simp [hi]
        · intro p hp
          simp only [List.mem_singleton] at hp
          subst hp; exact Or.inr (Or.inr hm)

end Rspirv
