/-
Structural, fuel-indexed merge sort that reduces in the kernel (`List.mergeSort` is defined by
well-founded recursion and does not), with the two facts the table checks need:
`msort` is a permutation of its input (for every fuel), and a list that passes the Boolean
`strictInc` check has no duplicates.
-/
namespace Rspirv

/-- Split a list into its elements at even and odd positions. -/
def halve {α} : List α → List α × List α
  | [] => ([], [])
  | [x] => ([x], [])
  | x :: y :: t => match halve t with
    | (a, b) => (x :: a, y :: b)

/-- merge with explicit fuel (structural recursion on the fuel, so the kernel can evaluate it);
out of fuel it appends, which is still a permutation. -/
def mergeF {α} (le : α → α → Bool) : Nat → List α → List α → List α
  | 0, xs, ys => xs ++ ys
  | _ + 1, [], ys => ys
  | _ + 1, xs, [] => xs
  | f + 1, x :: xs, y :: ys =>
    if le x y then x :: mergeF le f xs (y :: ys) else y :: mergeF le f (x :: xs) ys

def merge {α} (le : α → α → Bool) (xs ys : List α) : List α := mergeF le (xs.length + ys.length) xs ys

def msort {α} (le : α → α → Bool) : Nat → List α → List α
  | 0, l => l
  | _ + 1, [] => []
  | _ + 1, [x] => [x]
  | f + 1, x :: y :: t =>
    match halve (x :: y :: t) with
    | (a, b) => merge le (msort le f a) (msort le f b)

theorem halve_perm {α} : ∀ l : List α, List.Perm ((halve l).1 ++ (halve l).2) l
  | [] => List.Perm.refl _
  | [_] => List.Perm.refl _
  | x :: y :: t => by
    have ih := halve_perm t
    simp only [halve]
    generalize halve t = p at ih
    obtain ⟨a, b⟩ := p
    simp only [List.cons_append] at ih ⊢
    refine List.Perm.cons x ?_
    exact (List.perm_middle).trans (List.Perm.cons y ih)

theorem mergeF_perm {α} (le : α → α → Bool) : ∀ (f : Nat) (xs ys : List α), List.Perm (mergeF le f xs ys) (xs ++ ys)
  | 0, xs, ys => by simp [mergeF]
  | _ + 1, [], ys => by simp [mergeF]
  | _ + 1, x :: xs, [] => by simp [mergeF]
  | f + 1, x :: xs, y :: ys => by
    simp only [mergeF]
    split
    · exact List.Perm.cons x (mergeF_perm le f xs (y :: ys))
    · exact (List.Perm.cons y (mergeF_perm le f (x :: xs) ys)).trans
        (List.perm_middle (a := y) (l₁ := x :: xs) (l₂ := ys)).symm

theorem merge_perm {α} (le : α → α → Bool) (xs ys : List α) : List.Perm (merge le xs ys) (xs ++ ys) :=
  mergeF_perm le _ xs ys

theorem msort_perm {α} (le : α → α → Bool) : ∀ (f : Nat) (l : List α), List.Perm (msort le f l) l
  | 0, l => by simp [msort]
  | _ + 1, [] => by simp [msort]
  | _ + 1, [x] => by simp [msort]
  | f + 1, x :: y :: t => by
    simp only [msort]
    have hp := halve_perm (x :: y :: t)
    generalize halve (x :: y :: t) = p at hp
    obtain ⟨a, b⟩ := p
    refine (merge_perm le _ _).trans ?_
    exact (List.Perm.append (msort_perm le f _) (msort_perm le f _)).trans hp

theorem mem_msort {α} (le : α → α → Bool) (f : Nat) (l : List α) (x : α) :
    x ∈ msort le f l ↔ x ∈ l := (msort_perm le f l).mem_iff

/-- Boolean check: strictly increasing. -/
def strictInc : List Nat → Bool
  | [] => true
  | [_] => true
  | x :: y :: t => decide (x < y) && strictInc (y :: t)

theorem strictInc_pairwise : ∀ l : List Nat, strictInc l = true → l.Pairwise (· < ·)
  | [], _ => List.Pairwise.nil
  | [_], _ => by simp
  | x :: y :: t, h => by
    simp only [strictInc, Bool.and_eq_true, decide_eq_true_eq] at h
    have ih := strictInc_pairwise (y :: t) h.2
    refine List.Pairwise.cons ?_ ih
    intro z hz
    rcases List.mem_cons.1 hz with rfl | hz
    · exact h.1
    · exact Nat.lt_trans h.1 (List.rel_of_pairwise_cons ih hz)

theorem strictInc_nodup (l : List Nat) (h : strictInc l = true) : l.Nodup :=
  (strictInc_pairwise l h).imp (fun h => Nat.ne_of_lt h)

def natLe (a b : Nat) : Bool := Nat.ble a b

/-- Sort, skipping the work when the list is already strictly increasing (the common case for the
generated tables; kernel evaluation on this image runs at roughly 10^4 steps per second). -/
def sortNat (l : List Nat) : List Nat := if strictInc l then l else msort natLe l.length l

theorem sortNat_perm (l : List Nat) : List.Perm (sortNat l) l := by
  unfold sortNat; split
  · exact List.Perm.refl _
  · exact msort_perm _ _ _

/-- Decides `Nodup` in O(n log n) (O(n) when already sorted). -/
def nodupCheck (l : List Nat) : Bool := strictInc (sortNat l)

theorem nodup_of_check (l : List Nat) (h : nodupCheck l = true) : l.Nodup :=
  (sortNat_perm l).nodup_iff.1 (strictInc_nodup _ h)

/-- Two lists have the same elements (indeed are permutations) if their sorted forms coincide. -/
def sameSet (a b : List Nat) : Bool := sortNat a == sortNat b

theorem perm_of_sameSet (a b : List Nat) (h : sameSet a b = true) : List.Perm a b := by
  have e : sortNat a = sortNat b := by simpa [sameSet] using h
  exact (sortNat_perm a).symm.trans (e ▸ sortNat_perm b)

theorem mem_iff_of_sameSet (a b : List Nat) (h : sameSet a b = true) (x : Nat) : x ∈ a ↔ x ∈ b :=
  (perm_of_sameSet a b h).mem_iff

def pairLe (p q : Nat × Nat) : Bool := Nat.blt p.2 q.2 || (p.2 == q.2 && Nat.ble p.1 q.1)

/-- same pairs up to order (sorted by second, then first component) -/
def samePairs (a b : List (Nat × Nat)) : Bool :=
  a == b || msort pairLe a.length a == msort pairLe b.length b

theorem perm_of_samePairs (a b : List (Nat × Nat)) (h : samePairs a b = true) : List.Perm a b := by
  simp only [samePairs, Bool.or_eq_true, beq_iff_eq] at h
  rcases h with rfl | e
  · exact List.Perm.refl _
  · exact (msort_perm pairLe a.length a).symm.trans (e ▸ msort_perm pairLe b.length b)

end Rspirv
