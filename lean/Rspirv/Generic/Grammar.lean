import Rspirv.Generic.Table
import Rspirv.Generic.Enum
/- Schema of the regenerated operand-level data: what `parse_operand` does for a kind. -/
namespace Rspirv

/-- one `dr::Operand::<Variant>(self.decoder.<method>()?)` element.
`dec`: 0 = typed enum request, 1 = typed mask request, 2 = raw word (`id`/`bit32`/`ext_inst_integer`), 3 = `string`;
`ix` = index of the enum/mask spec, `ev` = name code of the `<Kind>Unknown` error variant. -/
structure Elem where
  variant : Nat
  dec : Nat
  ix : Nat
  ev : Nat
deriving Repr, DecidableEq

inductive KindAct where
  /-- `vec![e1, e2, ..]` -/
  | elems (es : List Elem)
  /-- value, then `if val.contains(FLAG) { params.append(..) }` per row, in source order -/
  | maskParams (e : Elem) (rows : List (Nat × List Elem))
  /-- value, then `match val { X => vec![..], .., _ => vec![] }` (first matching row) -/
  | enumParams (e : Elem) (rows : List (Nat × List Elem))
  /-- `panic!()` -/
  | panics
deriving Repr, DecidableEq

end Rspirv
