import Rspirv.Model.Builder
/-
Schema of the translated generated Builder methods and their meaning: a method applied to arguments is a
`Rspirv.Model.Call`.
-/
namespace Rspirv
open Rspirv.Model

/-- parameter type shapes of the generated signatures -/
inductive PType where
  | insertPoint
  | word | u32
  | enumT (ix : Nat) | maskT (ix : Nat)
  | str
  | opt (t : PType)
  | iterWord | iterU32 | iterOperand
  | iterPair (a b : Nat)        -- item kinds: 0 = word, 1 = u32, 2 = dr::Operand
deriving Repr, DecidableEq

/-- how a piece of the operand list is produced from the parameters (parameter given by its index) -/
inductive Slot where
  | one (variant : Nat) (param : Nat)          -- `dr::Operand::V(p)` in the initial vec!
  | optS (variant : Nat) (param : Nat)         -- `if let Some(v) = p { push(V(v)) }`
  | many (variant : Nat) (param : Nat)         -- `extend(p.into_iter().map(V))`
  | raw (param : Nat)                          -- `extend(p)` (already `dr::Operand`s)
  | pairs (v0 v1 : Option Nat) (param : Nat)   -- `for v in p { push(v.0 or V0(v.0)); push(v.1 or V1(v.1)) }`
deriving Repr, DecidableEq

structure MethodSpec where
  name : Nat
  params : List PType
  opcode : Nat
  /-- index of the `result_type` parameter -/
  rtype : Option Nat
  /-- 0 = no result id, 1 = `self.id()`, 2 = `p.unwrap_or_else(|| self.id())`, 3 = dedup branch on `p` -/
  idKind : Nat
  idParam : Nat
  slots : List Slot
  /-- 0 = section push, 1 = insert_into_block, 2 = end_block / insert_end_block, 3 = dedup -/
  sink : Nat
  sect : Nat
  /-- the method has an `insert_point` parameter (always the first) -/
  hasIp : Bool
  /-- wrapper `name(args) = callee(None, args)`: name code of the callee, 0 if not a wrapper -/
  wrapperOf : Nat
deriving Repr, DecidableEq

/-- argument values -/
inductive Arg where
  | n (v : Nat)
  | optN (o : Option Nat)
  | str (bytes : List Nat)
  | optStr (o : Option (List Nat))
  | ns (l : List Nat)
  | ops (l : List Operand)
  | pairN (l : List (Nat × Nat))
  | pairOpN (l : List (Operand × Nat))
  | ip (p : InsertPoint)
deriving Repr

/-- operands produced by one slot; `none` = argument of the wrong shape -/
def Slot.operands (vLitString : Nat) (args : List Arg) : Slot → Option (List Operand)
  | .one v p => match args[p]? with
    | some (.n x) => some [.w v x]
    | some (.str b) => if v == vLitString then some [.s b] else none
    | _ => none
  | .optS v p => match args[p]? with
    | some (.optN (some x)) => some [.w v x]
    | some (.optN none) => some []
    | some (.optStr (some b)) => if v == vLitString then some [.s b] else none
    | some (.optStr none) => some []
    | _ => none
  | .many v p => match args[p]? with
    | some (.ns l) => some (l.map (.w v))
    | _ => none
  | .raw p => match args[p]? with
    | some (.ops l) => some l
    | _ => none
  | .pairs v0 v1 p => match args[p]?, v0, v1 with
    | some (.pairN l), some a, some b => some (l.flatMap (fun x => [.w a x.1, .w b x.2]))
    | some (.pairOpN l), none, some b => some (l.flatMap (fun x => [x.1, .w b x.2]))
    | _, _, _ => none

def collect {α} : List (Option (List α)) → Option (List α)
  | [] => some []
  | none :: _ => none
  | some l :: t => (collect t).map (l ++ ·)

/-- the `result_type` argument, if the method has one -/
def MethodSpec.rtArg (m : MethodSpec) (args : List Arg) : Option (Option Nat) :=
  match m.rtype with
  | none => some none
  | some p => match args[p]? with
    | some (.n x) => some (some x)
    | _ => none

/-- the `insert_point` argument (always the first), `End` for methods without one -/
def MethodSpec.ipArg (m : MethodSpec) (args : List Arg) : Option InsertPoint :=
  if m.hasIp then (match args[0]? with
    | some (Arg.ip p) => some p
    | _ => none) else some InsertPoint.end_

/-- the optional explicit result id -/
def MethodSpec.givenArg (m : MethodSpec) (args : List Arg) : Option (Option Nat) :=
  if m.idKind == 2 || m.idKind == 3 then (match args[m.idParam]? with
    | some (Arg.optN o) => some o
    | _ => none) else some none

def MethodSpec.mkCall (m : MethodSpec) (ops : List Operand) (rt : Option Nat) (ip : InsertPoint) (given : Option Nat) : Call :=
  let rule : IdRule := if m.idKind == 0 then .none else if m.idKind == 1 then .fresh else .given given
  if m.sink == 0 then .moduleInst m.sect m.opcode rt rule ops
  else if m.sink == 1 then .blockInst ip m.opcode rt rule ops
  else if m.sink == 2 then .terminator ip m.opcode ops
  else .typeRequest m.opcode given ops

/-- the call a generated (non-wrapper) method makes -/
def MethodSpec.toCall (vLitString : Nat) (m : MethodSpec) (args : List Arg) : Option Call :=
  match collect (m.slots.map (Slot.operands vLitString args)), m.rtArg args, m.ipArg args, m.givenArg args with
  | some ops, some rt, some ip, some given => some (m.mkCall ops rt ip given)
  | _, _, _, _ => none

end Rspirv
