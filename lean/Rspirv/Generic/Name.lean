/- Names are carried as base-256 codes of their UTF-8 bytes with a leading 1 (injective). -/
namespace Rspirv

def nameCode (s : String) : Nat := s.toUTF8.foldl (fun acc b => acc * 256 + b.toNat) 1

def nameBytes (fuel : Nat) (n : Nat) (acc : List UInt8) : List UInt8 :=
  match fuel with
  | 0 => acc
  | f + 1 => if n ≤ 1 then acc else nameBytes f (n / 256) (UInt8.ofNat (n % 256) :: acc)

/-- inverse of `nameCode` (used only for driver output) -/
def nameString (n : Nat) : String :=
  match String.fromUTF8? (ByteArray.mk (nameBytes 4096 n []).toArray) with
  | some s => s
  | none => "?"

end Rspirv
