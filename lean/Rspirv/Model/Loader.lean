import Rspirv.Model.Parser
/-
Model of `dr::Loader` as a `binary::Consumer` (rspirv/dr/loader.rs): the `match opcode` of
`consume_instruction` in source order, `finalize`, and the errors.
-/
namespace Rspirv.Model

/-- opcode numbers and predicates the loader dispatches on (regenerated / extracted) -/
structure LTables where
  opCapability : Nat
  opExtension : Nat
  opExtInstImport : Nat
  opMemoryModel : Nat
  opEntryPoint : Nat
  opExecutionMode : Nat
  opExecutionModeId : Nat
  opString : Nat
  opSourceExtension : Nat
  opSource : Nat
  opSourceContinued : Nat
  opName : Nat
  opMemberName : Nat
  opModuleProcessed : Nat
  opVariable : Nat
  opUndef : Nat
  opFunction : Nat
  opFunctionEnd : Nat
  opFunctionParameter : Nat
  opLabel : Nat
  isLocationDebug : Nat → Bool
  isAnnotation : Nat → Bool
  isType : Nat → Bool
  isConstant : Nat → Bool
  isBlockTerminator : Nat → Bool

inductive LErr where
  | nestedFunction | unclosedFunction | mismatchedFunctionEnd | detachedFunctionParameter
  | detachedBlock | nestedBlock | unclosedBlock | mismatchedTerminator
  | detachedInstruction (opcode : Nat)
deriving Repr, DecidableEq

/-- the arm of `match opcode` an opcode takes, in source order (guards that look at the loader state are resolved in
`step`). `sect k` = pushed into module section `k` (layout order 0..10, 3 = `memory_model = Some(inst)`). -/
inductive Cls where
  | sect (k : Nat)
  | line
  | varOp | undefOp
  | fn | fnEnd | param | label | term | other
deriving Repr, DecidableEq

def classify (L : LTables) (op : Nat) : Cls :=
  if op == L.opCapability then .sect 0
  else if op == L.opExtension then .sect 1
  else if op == L.opExtInstImport then .sect 2
  else if op == L.opMemoryModel then .sect 3
  else if op == L.opEntryPoint then .sect 4
  else if op == L.opExecutionMode || op == L.opExecutionModeId then .sect 5
  else if op == L.opString || op == L.opSourceExtension || op == L.opSource || op == L.opSourceContinued then .sect 6
  else if op == L.opName || op == L.opMemberName then .sect 7
  else if op == L.opModuleProcessed then .sect 8
  else if L.isLocationDebug op then .line
  else if L.isAnnotation op then .sect 9
  else if L.isType op || L.isConstant op then .sect 10
  else if op == L.opVariable then .varOp
  else if op == L.opUndef then .undefOp
  else if op == L.opFunction then .fn
  else if op == L.opFunctionEnd then .fnEnd
  else if op == L.opFunctionParameter then .param
  else if op == L.opLabel then .label
  else if L.isBlockTerminator op then .term
  else .other

structure LState where
  module : Module Inst
  function : Option (Function Inst)
  block : Option (Block Inst)
deriving Repr

def emptyModule : Module Inst := ⟨none, [], [], [], none, [], [], [], [], [], [], [], []⟩
def LState.init : LState := ⟨emptyModule, none, none⟩
/-- the loader after `consume_header` -/
def LState.start (h : Header) : LState := ⟨⟨some h, [], [], [], none, [], [], [], [], [], [], [], []⟩, none, none⟩

def Module.push (m : Module Inst) (k : Nat) (i : Inst) : Module Inst :=
  match k with
  | 0 => { m with capabilities := m.capabilities ++ [i] }
  | 1 => { m with extensions := m.extensions ++ [i] }
  | 2 => { m with extInstImports := m.extInstImports ++ [i] }
  | 3 => { m with memoryModel := some i }
  | 4 => { m with entryPoints := m.entryPoints ++ [i] }
  | 5 => { m with executionModes := m.executionModes ++ [i] }
  | 6 => { m with debugStringSource := m.debugStringSource ++ [i] }
  | 7 => { m with debugNames := m.debugNames ++ [i] }
  | 8 => { m with debugModuleProcessed := m.debugModuleProcessed ++ [i] }
  | 9 => { m with annotations := m.annotations ++ [i] }
  | _ => { m with typesGlobalValues := m.typesGlobalValues ++ [i] }

def pushBlock (s : LState) (b : Block Inst) (i : Inst) : LState :=
  { s with block := some { b with insts := b.insts ++ [i] } }

/-- `Loader::consume_instruction` -/
def LState.step (L : LTables) (s : LState) (i : Inst) : Except LErr LState :=
  match classify L i.opcode with
  | .sect k => .ok { s with module := s.module.push k i }
  | .line =>
    match s.block with
    | some b => .ok (pushBlock s b i)
    | none => .ok { s with module := s.module.push 10 i }
  | .varOp | .undefOp =>
    -- `Op::Variable if self.function.is_none()`, `Op::Undef if self.function.is_none()`, else the `_` arm
    if s.function.isNone then .ok { s with module := s.module.push 10 i }
    else match s.block with
      | some b => .ok (pushBlock s b i)
      | none => .error (.detachedInstruction i.opcode)
  | .fn =>
    if s.function.isSome then .error .nestedFunction
    else .ok { s with function := some ⟨some i, none, [], []⟩ }
  | .fnEnd =>
    match s.function with
    | none => .error .mismatchedFunctionEnd
    | some f =>
      if s.block.isSome then .error .unclosedBlock
      else .ok { s with module := { s.module with functions := s.module.functions ++ [{ f with end_ := some i }] }, function := none }
  | .param =>
    match s.function with
    | none => .error .detachedFunctionParameter
    | some f => .ok { s with function := some { f with params := f.params ++ [i] } }
  | .label =>
    if s.function.isNone then .error .detachedBlock
    else if s.block.isSome then .error .nestedBlock
    else .ok { s with block := some ⟨some i, []⟩ }
  | .term =>
    match s.block with
    | none => .error .mismatchedTerminator
    | some b =>
      match s.function with
      | none => .error .mismatchedTerminator   -- `.unwrap()` on the function: unreachable, see `LState.Inv`
      | some f => .ok { s with function := some { f with blocks := f.blocks ++ [{ b with insts := b.insts ++ [i] }] }, block := none }
  | .other =>
    match s.block with
    | none => .error (.detachedInstruction i.opcode)
    | some b => .ok (pushBlock s b i)

/-- `Loader::finalize` -/
def LState.finalize (s : LState) : Except LErr (Module Inst) :=
  if s.block.isSome then .error .unclosedBlock
  else if s.function.isSome then .error .unclosedFunction
  else .ok s.module

def LState.run (L : LTables) : LState → List Inst → Except LErr LState
  | s, [] => .ok s
  | s, i :: is => match s.step L i with
    | .ok s' => LState.run L s' is
    | .error e => .error e

/-- feed a header and instructions, then finalize (what `load_bytes` does with the parser's callbacks) -/
def load (L : LTables) (h : Header) (is : List Inst) : Except LErr (Module Inst) :=
  match LState.run L (LState.start h) is with
  | .ok s => s.finalize
  | .error e => .error e

end Rspirv.Model
