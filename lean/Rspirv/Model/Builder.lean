import Rspirv.Model.Loader
/-
Model of `dr::Builder` (rspirv/dr/build/mod.rs and the statement templates of the generated methods).
A call is described by *what the method does* (its translated spec): id rule, instruction, sink. Indexing into
`functions[selected_function].blocks[selected_block]` is explicit: out of range = `.panic`.
-/
namespace Rspirv.Model

inductive InsertPoint where
  | end_ | begin | fromEnd (n : Nat) | fromBegin (n : Nat)
deriving Repr, DecidableEq

/-- how the result id of the emitted instruction is determined -/
inductive IdRule where
  | none                        -- no result id
  | fresh                       -- `let id = self.id()`
  | given (o : Option Nat)      -- `result_id.unwrap_or_else(|| self.id())`
deriving Repr, DecidableEq

inductive Call where
  | id
  | beginFunction (rt : Nat) (fid : Option Nat) (control : Nat) (ftype : Nat)
  | endFunction
  | functionParameter (rt : Nat)
  | beginBlock (label : Option Nat)
  | beginBlockNoLabel (label : Option Nat)
  /-- generated block instruction / `ext_inst`: id first, then `insert_into_block(point, inst)?` -/
  | blockInst (ip : InsertPoint) (opcode : Nat) (rtype : Option Nat) (rid : IdRule) (ops : List Operand)
  /-- generated terminator: `end_block` / `insert_end_block` -/
  | terminator (ip : InsertPoint) (opcode : Nat) (ops : List Operand)
  /-- module-level push into section `k` (`memory_model` = 3 overwrites) -/
  | moduleInst (k : Nat) (opcode : Nat) (rtype : Option Nat) (rid : IdRule) (ops : List Operand)
  /-- `variable` / `undef`: current block if one is selected, else `types_global_values` -/
  | varUndef (opcode : Nat) (rt : Nat) (rid : Option Nat) (ops : List Operand)
  /-- `line` / `no_line` -/
  | lineLike (opcode : Nat) (ops : List Operand)
  /-- generated type method with the three-way dedup branch (and `type_pointer`) -/
  | typeRequest (opcode : Nat) (rid : Option Nat) (ops : List Operand)
  | insertTGV (ip : InsertPoint) (i : Inst)
  /-- `Builder::insert_into_block(point, inst)` called directly -/
  | insertRaw (ip : InsertPoint) (i : Inst)
  | setVersion (major minor : Nat)
  | selectFunction (i : Option Nat)
  | selectBlock (i : Option Nat)
  /-- `select_function_by_name(name)`: the function whose id the first matching `OpName` names -/
  | selectByName (name : List Nat)
  | popInstruction
deriving Repr

inductive BOut where
  | unit
  | id (n : Nat)
  | inst (i : Inst)
  | err (e : LErr)
  | errDetachedNone         -- `DetachedInstruction(None)` of pop_instruction
  | errEmptyList
  | errFunctionNotFound
  | errBlockNotFound
  | panic (site : String)
deriving Repr, DecidableEq

/-- opcode / operand-variant numbers used by the hand-written structural methods -/
structure BTables where
  opFunction : Nat
  opFunctionEnd : Nat
  opFunctionParameter : Nat
  opLabel : Nat
  opName : Nat
  vFunctionControl : Nat
  vIdRef : Nat
  magic : Nat
  /-- `create_word_from_version(MAJOR_VERSION, MINOR_VERSION)` -/
  defaultVersion : Nat

structure BState where
  module : Module Inst
  nextId : Nat
  selFn : Option Nat
  selBlk : Option Nat
deriving Repr

def BState.new : BState := ⟨⟨none, [], [], [], none, [], [], [], [], [], [], [], []⟩, 1, none, none⟩

/-- `Vec::insert(pos, x)`; `none` = panic (`pos > len`) -/
def vecInsert {α} (l : List α) (pos : Nat) (x : α) : Option (List α) :=
  if pos ≤ l.length then some (l.take pos ++ [x] ++ l.drop pos) else none

def insertAt {α} (l : List α) (ip : InsertPoint) (x : α) : Option (List α) :=
  match ip with
  | .end_ => some (l ++ [x])
  | .begin => vecInsert l 0 x
  | .fromEnd n => if n ≤ l.length then vecInsert l (l.length - n) x else none   -- `end - offset` underflow
  | .fromBegin n => vecInsert l n x

def setAt {α} (l : List α) (i : Nat) (x : α) : List α := l.set i x

/-- `self.module.functions[f].blocks[b]` updated by `g`; `none` = index panic -/
def updBlock (m : Module Inst) (f b : Nat) (g : Block Inst → Option (Block Inst)) : Option (Module Inst) :=
  match m.functions[f]? with
  | none => none
  | some fn =>
    match fn.blocks[b]? with
    | none => none
    | some blk =>
      match g blk with
      | none => none
      | some blk' => some { m with functions := m.functions.set f { fn with blocks := fn.blocks.set b blk' } }

/-- `Builder::insert_into_block` -/
def insertIntoBlock (s : BState) (ip : InsertPoint) (i : Inst) : BState × BOut :=
  match s.selFn, s.selBlk with
  | some f, some b =>
    match updBlock s.module f b (fun blk => (insertAt blk.insts ip i).map (fun l => { blk with insts := l })) with
    | some m => ({ s with module := m }, .unit)
    | none => (s, .panic "insert_into_block: index")
  | _, _ => (s, .err (.detachedInstruction i.opcode))

/-- `self.id()` when the rule asks for it -/
def allocId (s : BState) : IdRule → BState × Option Nat
  | .none => (s, none)
  | .fresh => ({ s with nextId := s.nextId + 1 }, some s.nextId)
  | .given (some v) => (s, some v)
  | .given none => ({ s with nextId := s.nextId + 1 }, some s.nextId)

/-- outcome of the search of `select_function_by_name` -/
inductive Found where
  | idx (i : Nat)
  | none
  | panic (site : String)
deriving Repr, DecidableEq

/-- `for (idx, func) in functions { if func.def.unwrap().result_id.unwrap() == target { return idx } }` -/
def funcWithId (target : Nat) : Nat → List (Function Inst) → Found
  | _, [] => .none
  | k, f :: fs =>
    match f.def_ with
    | none => .panic "select_function_by_name: def unwrap"
    | some d =>
      match d.rid with
      | none => .panic "select_function_by_name: result_id unwrap"
      | some r => if r == target then .idx k else funcWithId target (k + 1) fs

/-- the loop of `select_function_by_name` over `debug_names` (indexing `operands[0]`, `operands[1]` can panic) -/
def findByName (B : BTables) (fns : List (Function Inst)) (nm : List Nat) : List Inst → Found
  | [] => .none
  | dbg :: rest =>
    if dbg.opcode == B.opName then
      match dbg.operands with
      | [] => .panic "select_function_by_name: operands[0]"
      | .w v t :: more =>
        if v == B.vIdRef then
          match more with
          | [] => .panic "select_function_by_name: operands[1]"
          | .s b :: _ =>
            if b == nm then
              match funcWithId t 0 fns with
              | .none => findByName B fns nm rest
              | r => r
            else findByName B fns nm rest
          | _ :: _ => findByName B fns nm rest
        else findByName B fns nm rest
      | _ :: _ => findByName B fns nm rest
    else findByName B fns nm rest

def BState.step (B : BTables) (s : BState) : Call → BState × BOut
  | .id => ({ s with nextId := s.nextId + 1 }, .id s.nextId)
  | .beginFunction rt fid control ftype =>
    if s.selFn.isSome then (s, .err .nestedFunction) else
    let (s1, id) := match fid with
      | some v => (s, v)
      | none => ({ s with nextId := s.nextId + 1 }, s.nextId)
    let f : Function Inst := ⟨some ⟨B.opFunction, some rt, some id, [.w B.vFunctionControl control, .w B.vIdRef ftype]⟩, none, [], []⟩
    ({ s1 with module := { s1.module with functions := s1.module.functions ++ [f] },
               selFn := some s1.module.functions.length }, .id id)
  | .endFunction =>
    match s.selFn with
    | none => (s, .err .mismatchedFunctionEnd)
    | some f =>
      match s.module.functions[f]? with
      | none => (s, .panic "end_function: index")
      | some fn =>
        ({ s with module := { s.module with functions := s.module.functions.set f { fn with end_ := some ⟨B.opFunctionEnd, none, none, []⟩ } },
                  selFn := none, selBlk := none }, .unit)
  | .functionParameter rt =>
    match s.selFn with
    | none => (s, .err .detachedFunctionParameter)
    | some f =>
      let id := s.nextId
      match s.module.functions[f]? with
      | none => ({ s with nextId := s.nextId + 1 }, .panic "function_parameter: index")
      | some fn =>
        ({ s with nextId := s.nextId + 1,
                  module := { s.module with functions := s.module.functions.set f { fn with params := fn.params ++ [⟨B.opFunctionParameter, some rt, some id, []⟩] } } },
         .id id)
  | .beginBlock label =>
    match s.selFn with
    | none => (s, .err .detachedBlock)
    | some f =>
      if s.selBlk.isSome then (s, .err .nestedBlock) else
      let (s1, id) := match label with
        | some v => (s, v)
        | none => ({ s with nextId := s.nextId + 1 }, s.nextId)
      match s1.module.functions[f]? with
      | none => (s1, .panic "begin_block: index")
      | some fn =>
        ({ s1 with module := { s1.module with functions := s1.module.functions.set f { fn with blocks := fn.blocks ++ [⟨some ⟨B.opLabel, none, some id, []⟩, []⟩] } },
                   selBlk := some fn.blocks.length }, .id id)
  | .beginBlockNoLabel label =>
    match s.selFn with
    | none => (s, .err .detachedBlock)
    | some f =>
      if s.selBlk.isSome then (s, .err .nestedBlock) else
      let (s1, id) := match label with
        | some v => (s, v)
        | none => ({ s with nextId := s.nextId + 1 }, s.nextId)
      match s1.module.functions[f]? with
      | none => (s1, .panic "begin_block_no_label: index")
      | some fn =>
        ({ s1 with module := { s1.module with functions := s1.module.functions.set f { fn with blocks := fn.blocks ++ [⟨none, []⟩] } },
                   selBlk := some fn.blocks.length }, .id id)
  | .blockInst ip opcode rtype rule ops =>
    let (s1, rid) := allocId s rule
    match insertIntoBlock s1 ip ⟨opcode, rtype, rid, ops⟩ with
    | (s2, .unit) => (s2, match rid with | some v => .id v | none => .unit)
    | (s2, o) => (s2, o)
  | .terminator ip opcode ops =>
    if s.selBlk.isSome then
      match insertIntoBlock s ip ⟨opcode, none, none, ops⟩ with
      | (s2, .unit) => ({ s2 with selBlk := none }, .unit)
      | (s2, o) => (s2, o)
    else (s, .err .mismatchedTerminator)
  | .moduleInst k opcode rtype rule ops =>
    let (s1, rid) := allocId s rule
    ({ s1 with module := s1.module.push k ⟨opcode, rtype, rid, ops⟩ }, match rid with | some v => .id v | none => .unit)
  | .varUndef opcode rt rid ops =>
    let (s1, id) := match rid with
      | some v => (s, v)
      | none => ({ s with nextId := s.nextId + 1 }, s.nextId)
    let i : Inst := ⟨opcode, some rt, some id, ops⟩
    match s1.selFn, s1.selBlk with
    | some f, some b =>
      match updBlock s1.module f b (fun blk => some { blk with insts := blk.insts ++ [i] }) with
      | some m => ({ s1 with module := m }, .id id)
      | none => (s1, .panic "variable: index")
    | _, _ => ({ s1 with module := s1.module.push 10 i }, .id id)
  | .lineLike opcode ops =>
    if s.selBlk.isSome then
      match insertIntoBlock s .end_ ⟨opcode, none, none, ops⟩ with
      | (s2, .unit) => (s2, .unit)
      | (s2, .err _) => (s2, .panic "line: expect")
      | (s2, o) => (s2, o)
    else ({ s with module := s.module.push 10 ⟨opcode, none, none, ops⟩ }, .unit)
  | .typeRequest opcode rid ops =>
    match rid with
    | some v => ({ s with module := s.module.push 10 ⟨opcode, none, some v, ops⟩ }, .id v)
    | none =>
      -- `dedup_insert_type`: first entry of types_global_values with the same opcode and operands that has a result id
      match s.module.typesGlobalValues.findSome? (fun t => if t.opcode == opcode && t.operands == ops then t.rid else none) with
      | some id => (s, .id id)
      | none =>
        ({ s with nextId := s.nextId + 1, module := s.module.push 10 ⟨opcode, none, some s.nextId, ops⟩ }, .id s.nextId)
  | .insertTGV ip i =>
    match insertAt s.module.typesGlobalValues ip i with
    | some l => ({ s with module := { s.module with typesGlobalValues := l } }, .unit)
    | none => (s, .panic "insert_types_global_values: index")
  | .insertRaw ip i => insertIntoBlock s ip i
  | .setVersion major minor =>
    let h : Header := match s.module.header with
      | some h => h
      | none => ⟨B.magic, B.defaultVersion, 0x000f0000, 0, 0⟩
    ({ s with module := { s.module with header := some { h with version := major % 256 * 65536 + minor % 256 * 256 } } }, .unit)
  | .selectFunction none => ({ s with selFn := none, selBlk := none }, .unit)
  | .selectFunction (some i) =>
    if i < s.module.functions.length then ({ s with selFn := some i, selBlk := none }, .unit)
    else (s, .errFunctionNotFound)
  | .selectBlock none => ({ s with selBlk := none }, .unit)
  | .selectBlock (some i) =>
    match s.selFn with
    | none => (s, .err .detachedBlock)
    | some f =>
      match s.module.functions[f]? with
      | none => (s, .panic "select_block: index")
      | some fn => if i < fn.blocks.length then ({ s with selBlk := some i }, .unit) else (s, .errBlockNotFound)
  | .selectByName nm =>
    match findByName B s.module.functions nm s.module.debugNames with
    | .idx i =>
      if i < s.module.functions.length then ({ s with selFn := some i, selBlk := none }, .unit)
      else (s, .errFunctionNotFound)
    | .none => (s, .errFunctionNotFound)
    | .panic site => (s, .panic site)
  | .popInstruction =>
    match s.selFn, s.selBlk with
    | some f, some b =>
      match s.module.functions[f]? with
      | none => (s, .panic "pop_instruction: index")
      | some fn =>
        match fn.blocks[b]? with
        | none => (s, .panic "pop_instruction: index")
        | some blk =>
          match blk.insts.getLast? with
          | none => (s, .errEmptyList)
          | some i =>
            ({ s with module := { s.module with functions := s.module.functions.set f { fn with blocks := fn.blocks.set b { blk with insts := blk.insts.dropLast } } } },
             .inst i)
    | _, _ => (s, .errDetachedNone)

/-- `Builder::module()`: the bound is fixed up to the next id -/
def BState.finish (B : BTables) (s : BState) : Module Inst :=
  match s.module.header with
  | some h => { s.module with header := some { h with bound := s.nextId } }
  | none => { s.module with header := some ⟨B.magic, B.defaultVersion, 0x000f0000, s.nextId, 0⟩ }

def BState.run (B : BTables) : BState → List Call → BState × List BOut
  | s, [] => (s, [])
  | s, c :: cs =>
    let r := s.step B c
    let rest := BState.run B r.1 cs
    (rest.1, r.2 :: rest.2)

end Rspirv.Model
