import Rspirv.Model.Loader
import Rspirv.Generic.Name
/-
Model of `lift::LiftContext::convert` (rspirv/lift/mod.rs, hand-written) over the per-opcode field tables translated
from the generated `lift/autogen_context.rs`. The generated code reads the operands with one iterator, field after
field in the order of the struct literal; `liftFields` is that reading, interpreted from the table.
Every `HashMap` index, `unwrap`, `expect`, `assert_eq!`, `panic!` and slice index of the Rust text is an explicit
`.panic` outcome.
-/
namespace Rspirv.Model

/-- one field of a generated struct literal.
`mode`: 0 required, 1 optional, 2 list (all remaining operands), 3 list of pairs.
`transforms`: 0 `*value`, 1 `value.clone()`, 2 `self.types.lookup_token`, 3 `self.constants.lookup_token`,
4 `StructMember::new(self.types.lookup_token(..))`, 5 `self.lookup_jump`, 6 value followed by every remaining operand as ids -/
structure LField where
  name : Nat
  mode : Nat
  variants : List Nat
  transforms : List Nat
deriving Repr, DecidableEq

structure LArm where
  opcode : Nat
  ctor : Nat
  fields : List LField
deriving Repr, DecidableEq

/-- lifted values, generically -/
inductive LVal where
  | num (n : Nat)
  | str (bytes : List Nat)
  | tok (n : Nat)
  | member (n : Nat)
  | jump (n : Nat)
  | none
  | some (v : LVal)
  | list (vs : List LVal)
  | pair (a b : LVal)
  | withIds (v : Nat) (ids : List Nat)
deriving Repr

structure LNode where
  ctor : Nat
  fields : List (Nat × LVal)
deriving Repr

/-- `OperandError` -/
inductive OpErr where
  | wrongType | wrongEnumValue | missing
deriving Repr, DecidableEq

/-- `InstructionError` -/
inductive LiErr where
  | wrongOpcode | missingResult | operand (e : OpErr)
deriving Repr, DecidableEq

inductive ConvErr where
  | missingHeader | missingFunction | missingFunctionType | missingLabel | missingTerminator
  | inst (e : LiErr)
deriving Repr, DecidableEq

inductive LRes (ε α : Type) where
  | ok (a : α)
  | err (e : ε)
  | panic (site : String)
deriving Repr

structure LiftTables where
  branch : List LArm
  terminator : List LArm
  op : List LArm
  type_ : List LArm
  capability : Option LArm
  memoryModel : Option LArm
  function : Option LArm
  vLit64 : Nat
  vLitString : Nat
  vIdRef : Nat
  vLit32 : Nat
  vSamplerAddressingMode : Nat
  vSamplerFilterMode : Nat
  opLine : Nat
  opPhi : Nat
  opConstantTrue : Nat
  opConstantFalse : Nat
  opConstant : Nat
  opConstantComposite : Nat
  opConstantSampler : Nat
  opConstantNull : Nat
  opConstantCompositeContinuedINTEL : Nat
  opSpecConstantCompositeContinuedINTEL : Nat
  /-- name codes of `Type::Int`, `Type::Float` and of their fields, to read declared types back -/
  nInt : Nat
  nFloat : Nat
  nWidth : Nat
  nSignedness : Nat
  nFpEncoding : Nat
  nFunctionControl : Nat
  nCapability : Nat

/-- `id ↦ token` maps of the `LiftStorage`s (`HashMap`: association lists with unique keys) -/
structure LCtx where
  types : List LNode
  typeIds : List (Nat × Nat)
  consts : List LNode
  constIds : List (Nat × Nat)
  blocks : List LNode
  blockIds : List (Nat × Nat)
  ops : List LNode
  /-- id ↦ (op token, result type token) -/
  opIds : List (Nat × Nat × Option Nat)

def LCtx.empty : LCtx := ⟨[], [], [], [], [], [], [], []⟩

def lookupId (m : List (Nat × Nat)) (id : Nat) : Option Nat := (m.find? (fun p => p.1 == id)).map (·.2)

def Operand.variant (T : LiftTables) : Operand → Nat
  | .w v _ => v
  | .q _ => T.vLit64
  | .s _ => T.vLitString

def Operand.raw : Operand → LVal
  | .w _ v => .num v
  | .q v => .num v
  | .s b => .str b

/-- the value built from a matched operand -/
def applyTransform (c : LCtx) (t : Nat) (o : Operand) : LRes OpErr LVal :=
  if t == 2 then
    match lookupId c.typeIds o.num with
    | some k => .ok (.tok k)
    | none => .panic "types.lookup_token: no entry found for key"
  else if t == 3 then
    match lookupId c.constIds o.num with
    | some k => .ok (.tok k)
    | none => .panic "constants.lookup_token: no entry found for key"
  else if t == 4 then
    match lookupId c.typeIds o.num with
    | some k => .ok (.member k)
    | none => .panic "types.lookup_token: no entry found for key"
  else if t == 5 then
    match lookupId c.blockIds o.num with
    | some k => .ok (.jump k)
    | none => .panic "lookup_jump: no entry found for key"
  else .ok o.raw

/-- `match operands.next() { Some(V(value)) => Some(T), Some(_) => return Err(WrongType), None => None }` -/
def matchOne (T : LiftTables) (c : LCtx) (variant t : Nat) (ops : List Operand) : LRes OpErr (Option LVal × List Operand) :=
  match ops with
  | [] => .ok (.none, [])
  | o :: rest =>
    if o.variant T != variant then .err .wrongType
    else if t == 6 then
      -- `operands.map(|op| match *op { IdRef(second) => Ok(second), _ => Err(WrongType) }).collect()?`
      if rest.all (fun r => match r with | .w v _ => v == T.vIdRef | _ => false) then
        .ok (some (.withIds o.num (rest.map Operand.num)), [])
      else .err .wrongType
    else
      match applyTransform c t o with
      | .ok v => .ok (some v, rest)
      | .err e => .err e
      | .panic s => .panic s

/-- the `while let Some(item) = match operands.next() { .. }` loop: every remaining operand must match -/
def matchList (T : LiftTables) (c : LCtx) (variant t : Nat) : List Operand → LRes OpErr (List LVal)
  | [] => .ok []
  | o :: rest =>
    if o.variant T != variant then .err .wrongType
    else match applyTransform c t o with
      | .ok v => (match matchList T c variant t rest with
        | .ok vs => .ok (v :: vs)
        | r => r)
      | .err e => .err e
      | .panic s => .panic s

/-- the pair loop: `(Some(A(first)), Some(B(second)))` → item, `(None, None)` → stop, anything else → WrongType -/
def matchPairs (T : LiftTables) (c : LCtx) (v1 v2 t1 t2 : Nat) : List Operand → LRes OpErr (List LVal)
  | [] => .ok []
  | [_] => .err .wrongType
  | a :: b :: rest =>
    if a.variant T != v1 || b.variant T != v2 then .err .wrongType
    else match applyTransform c t1 a with
      | .ok x => (match applyTransform c t2 b with
        | .ok y => (match matchPairs T c v1 v2 t1 t2 rest with
          | .ok vs => .ok (.pair x y :: vs)
          | r => r)
        | .err e => .err e
        | .panic s => .panic s)
      | .err e => .err e
      | .panic s => .panic s

/-- one field: its value and the operands left for the following fields -/
def liftField (T : LiftTables) (c : LCtx) (f : LField) (ops : List Operand) : LRes OpErr (LVal × List Operand) :=
  let v1 := f.variants.getD 0 0
  let t1 := f.transforms.getD 0 0
  if f.mode == 0 then
    match matchOne T c v1 t1 ops with
    | .ok (some v, rest) => .ok (v, rest)
    | .ok (none, _) => .err .missing
    | .err e => .err e
    | .panic s => .panic s
  else if f.mode == 1 then
    match matchOne T c v1 t1 ops with
    | .ok (some v, rest) => .ok (.some v, rest)
    | .ok (none, rest) => .ok (.none, rest)
    | .err e => .err e
    | .panic s => .panic s
  else if f.mode == 2 then
    match matchList T c v1 t1 ops with
    | .ok vs => .ok (.list vs, [])
    | .err e => .err e
    | .panic s => .panic s
  else
    match matchPairs T c v1 (f.variants.getD 1 0) t1 (f.transforms.getD 1 0) ops with
    | .ok vs => .ok (.list vs, [])
    | .err e => .err e
    | .panic s => .panic s

/-- the struct literal: fields evaluated in source order over one operand iterator -/
def liftFields (T : LiftTables) (c : LCtx) : List LField → List Operand → LRes OpErr (List (Nat × LVal) × List Operand)
  | [], ops => .ok ([], ops)
  | f :: fs, ops =>
    match liftField T c f ops with
    | .ok (v, rest) =>
      (match liftFields T c fs rest with
       | .ok (vs, rest') => .ok ((f.name, v) :: vs, rest')
       | r => r)
    | .err e => .err e
    | .panic s => .panic s

/-- a generated `match raw.class.opcode as u32 { .. _ => Err(WrongOpcode) }` -/
def liftWith (T : LiftTables) (c : LCtx) (arms : List LArm) (i : Inst) : LRes LiErr LNode :=
  match arms.find? (fun a => a.opcode == i.opcode) with
  | none => .err .wrongOpcode
  | some a =>
    match liftFields T c a.fields i.operands with
    | .ok (vs, _) => .ok ⟨a.ctor, vs⟩
    | .err e => .err (.operand e)
    | .panic s => .panic s

/-- `lift_terminator`: its own arms, otherwise `lift_branch` -/
def liftTerminator (T : LiftTables) (c : LCtx) (i : Inst) : LRes LiErr LNode :=
  match T.terminator.find? (fun a => a.opcode == i.opcode) with
  | some _ => liftWith T c T.terminator i
  | none => liftWith T c T.branch i

def nodeField (n : LNode) (f : Nat) : Option LVal := (n.fields.find? (fun p => p.1 == f)).map (·.2)

/-- `lift_constant` (hand-written in lift/mod.rs); constructor names as strings -/
def liftConstant (T : LiftTables) (c : LCtx) (i : Inst) : LRes LiErr LNode :=
  let mk (name : String) (fs : List (Nat × LVal)) : LRes LiErr LNode := .ok ⟨nameCode name, fs⟩
  if i.opcode == T.opConstantTrue then mk "Bool" [(0, .num 1)]
  else if i.opcode == T.opConstantFalse then mk "Bool" [(0, .num 0)]
  else if i.opcode == T.opConstant then
    match i.rtype with
    | none => .err .missingResult
    | some id =>
      match i.operands.head? with
      | none => .err (.operand .missing)
      | some oper =>
        -- `*self.types.lookup(id).0`
        match lookupId c.typeIds id with
        | none => .panic "types.lookup: no entry found for key"
        | some k =>
          match c.types[k]? with
          | none => .panic "types.lookup: token out of range"
          | some ty =>
            if ty.ctor == T.nInt then
              match oper with
              | .w v x =>
                if v != T.vLit32 then .err (.operand .wrongType)
                else match nodeField ty T.nSignedness with
                  | some (.num 0) => mk "UInt" [(0, .num x)]
                  | _ => mk "Int" [(0, .num x)]
              | _ => .err (.operand .wrongType)
            else if ty.ctor == T.nFloat then
              match nodeField ty T.nFpEncoding with
              | some (.some _) => .err (.operand .wrongEnumValue)
              | _ =>
                match oper with
                | .w v x => if v != T.vLit32 then .err (.operand .wrongType) else mk "Float" [(0, .num x)]
                | _ => .err (.operand .wrongType)
            else .err .missingResult
  else if i.opcode == T.opConstantComposite then
    let rec go : List Operand → LRes LiErr (List LVal)
      | [] => .ok []
      | o :: rest =>
        match o with
        | .w v x =>
          if v != T.vIdRef then .err (.operand .wrongType)
          else match lookupId c.constIds x with
            | none => .panic "constants.lookup_token: no entry found for key"
            | some k => (match go rest with
              | .ok vs => .ok (.tok k :: vs)
              | r => r)
        | _ => .err (.operand .wrongType)
    match go i.operands with
    | .ok vs => mk "Composite" [(0, .list vs)]
    | .err e => .err e
    | .panic s => .panic s
  else if i.opcode == T.opConstantSampler then
    match i.operands with
    | a :: b :: d :: _ =>
      match a, b, d with
      | .w va xa, .w vb xb, .w vd xd =>
        if va != T.vSamplerAddressingMode then .err (.operand .wrongType)
        else if vb != T.vLit32 then .err (.operand .wrongType)
        else if vd != T.vSamplerFilterMode then .err (.operand .wrongType)
        else mk "Sampler" [(nameCode "addressing_mode", .num xa), (nameCode "normalized", .num (if xb != 0 then 1 else 0)),
                           (nameCode "filter_mode", .num xd)]
      | _, _, _ => .err (.operand .wrongType)
    | _ => .err (.operand .missing)
  else if i.opcode == T.opConstantNull then mk "Null" []
  else if i.opcode == T.opConstantCompositeContinuedINTEL || i.opcode == T.opSpecConstantCompositeContinuedINTEL then
    .panic "todo!()"
  else .err .wrongOpcode

/-- the first loop of `convert`: types, then constants, everything else skipped -/
def liftGlobals (T : LiftTables) : LCtx → List Inst → LRes ConvErr LCtx
  | c, [] => .ok c
  | c, i :: rest =>
    match liftWith T c T.type_ i with
    | .ok v =>
      (match i.rid with
       | some id =>
         -- `append_id`: the value is stored, then the id must be vacant
         if (lookupId c.typeIds id).isSome then .panic "Id is already used"
         else liftGlobals T { c with types := c.types ++ [v], typeIds := (id, c.types.length) :: c.typeIds } rest
       | none => liftGlobals T c rest)
    | .panic s => .panic s
    | .err .wrongOpcode =>
      (match liftConstant T c i with
       | .ok v =>
         (match i.rid with
          | some id =>
            if (lookupId c.constIds id).isSome then .panic "Id is already used"
            else liftGlobals T { c with consts := c.consts ++ [v], constIds := (id, c.consts.length) :: c.constIds } rest
          | none => liftGlobals T c rest)
       | .panic s => .panic s
       | .err .wrongOpcode => liftGlobals T c rest
       | .err _ => .panic "Constant lift error")
    | .err _ => .panic "Type lift error"

/-- the instructions of one block: phis contribute their result type to the arguments, other result-producing
instructions become operations -/
def liftBlockInsts (T : LiftTables) : LCtx → List LVal → List Inst → LRes ConvErr (LCtx × List LVal)
  | c, args, [] => .ok (c, args)
  | c, args, i :: rest =>
    if i.opcode == T.opLine then liftBlockInsts T c args rest
    else if i.opcode == T.opPhi then
      match i.rtype with
      | none => .err (.inst .missingResult)
      | some rt =>
        match lookupId c.typeIds rt with
        | none => .panic "types.lookup_token: no entry found for key"
        | some ty =>
          -- sanity check over the operands at even positions
          let rec check : List Operand → Bool → LRes ConvErr Unit
            | [], _ => .ok ()
            | o :: t, even =>
              if !even then check t true
              else match o with
                | .w v id =>
                  if v != T.vIdRef then .err (.inst (.operand .missing))
                  else match c.opIds.find? (fun p => p.1 == id) with
                    | some (_, _, oty) => if oty == some ty then check t false else .panic "assertion failed: Some(ty) == info.ty"
                    | none => check t false
                | _ => .err (.inst (.operand .missing))
          match check i.operands true with
          | .ok _ => liftBlockInsts T c (args ++ [.tok ty]) rest
          | .err e => .err e
          | .panic s => .panic s
    else
      match i.rid with
      | none => liftBlockInsts T c args rest
      | some id =>
        match liftWith T c T.op i with
        | .err e => .err (.inst e)
        | .panic s => .panic s
        | .ok op =>
          -- `context.ops.append(id, op)`, then `types.lookup(ty)` for the result type
          if (c.opIds.find? (fun p => p.1 == id)).isSome then .panic "Id is already used"
          else
            match i.rtype with
            | none => liftBlockInsts T { c with ops := c.ops ++ [op], opIds := (id, c.ops.length, none) :: c.opIds } args rest
            | some rt =>
              match lookupId c.typeIds rt with
              | none => .panic "types.lookup: no entry found for key"
              | some ty => liftBlockInsts T { c with ops := c.ops ++ [op], opIds := (id, c.ops.length, some ty) :: c.opIds } args rest

structure LBlock where
  args : List LVal
  term : LNode
deriving Repr

structure LFunction where
  control : LVal
  result : Nat
  blocks : List LBlock
  start : Nat
deriving Repr

def liftBlocks (T : LiftTables) : LCtx → List LBlock → List (Block Inst) → LRes ConvErr (LCtx × List LBlock)
  | c, acc, [] => .ok (c, acc)
  | c, acc, b :: rest =>
    match liftBlockInsts T c [] b.insts with
    | .err e => .err e
    | .panic s => .panic s
    | .ok (c1, args) =>
      match b.insts.getLast? with
      | none => .err .missingTerminator
      | some last =>
        match liftTerminator T c1 last with
        | .err e => .err (.inst e)
        | .panic s => .panic s
        | .ok term =>
          match b.label.bind (·.rid) with
          | none => .panic "label unwrap"
          | some lid =>
            if (lookupId c1.blockIds lid).isSome then .panic "Id is already used"
            else liftBlocks T { c1 with blocks := c1.blocks ++ [term], blockIds := (lid, acc.length) :: c1.blockIds }
                   (acc ++ [⟨args, term⟩]) rest

def liftFunctions (T : LiftTables) : LCtx → List LFunction → List (Function Inst) → LRes ConvErr (LCtx × List LFunction)
  | c, acc, [] => .ok (c, acc)
  | c, acc, f :: rest =>
    match f.def_ with
    | none => .err .missingFunction
    | some d =>
      match T.function with
      | none => .panic "table: lift_function"
      | some arm =>
        match liftWith T c [arm] d with
        | .err e => .err (.inst e)
        | .panic s => .panic s
        | .ok defn =>
          match liftBlocks T { c with blocks := [], blockIds := [] } [] f.blocks with
          | .err e => .err e
          | .panic s => .panic s
          | .ok (c1, blocks) =>
            match f.blocks.head? with
            | none => .panic "index out of bounds: fun.blocks[0]"
            | some b0 =>
              match b0.label.bind (·.rid) with
              | none => .panic "label unwrap"
              | some l0 =>
                match lookupId c1.blockIds l0 with
                | none => .panic "blocks.lookup_token"
                | some start =>
                  match d.rtype with
                  | none => .panic "functions must have a result type"
                  | some rt =>
                    match lookupId c1.typeIds rt with
                    | none => .panic "types.lookup_token: no entry found for key"
                    | some res =>
                      liftFunctions T { c1 with blocks := [], blockIds := [] }
                        (acc ++ [⟨(nodeField defn T.nFunctionControl).getD .none, res, blocks, start⟩]) rest

structure LModule where
  version : Nat
  capabilities : List LVal
  memoryModel : LNode
  types : List LNode
  consts : List LNode
  ops : List LNode
  functions : List LFunction
deriving Repr

/-- `LiftContext::convert` -/
def convert (T : LiftTables) (m : Module Inst) : LRes ConvErr LModule :=
  match liftGlobals T LCtx.empty m.typesGlobalValues with
  | .err e => .err e
  | .panic s => .panic s
  | .ok c0 =>
    match liftFunctions T c0 [] m.functions with
    | .err e => .err e
    | .panic s => .panic s
    | .ok (c, fns) =>
      match m.header with
      | none => .err .missingHeader
      | some h =>
        match T.capability with
        | none => .panic "table: lift_capability"
        | some capArm =>
          let rec caps : List Inst → LRes ConvErr (List LVal)
            | [] => .ok []
            | i :: rest =>
              match liftWith T c [capArm] i with
              | .err e => .err (.inst e)
              | .panic s => .panic s
              | .ok n => (match caps rest with
                | .ok vs => .ok ((nodeField n T.nCapability).getD .none :: vs)
                | r => r)
          match caps m.capabilities with
          | .err e => .err e
          | .panic s => .panic s
          | .ok cs =>
            match m.memoryModel with
            | none => .err .missingHeader
            | some mm =>
              match T.memoryModel with
              | none => .panic "table: lift_memory_model"
              | some mmArm =>
                match liftWith T c [mmArm] mm with
                | .err e => .err (.inst e)
                | .panic s => .panic s
                | .ok mmn => .ok ⟨h.version, cs, mmn, c.types, c.consts, c.ops, fns⟩

end Rspirv.Model
