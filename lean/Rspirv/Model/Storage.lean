/-
Model of `sr::storage::Storage<T>` (rspirv/sr/storage.rs): a vector, `append`, `fetch_or_append`,
indexing by token. The element equality is an arbitrary Boolean relation (no laws: `f32`'s `==` is not
reflexive). `Index = u32`: the model's indices are naturals; the implementation's `len() as u32`
agrees while the storage holds fewer than 2^32 values (stated assumption).
-/
namespace Rspirv.Model.Storage

variable {α : Type}

/-- `Storage::append`: push, return the old length -/
def append (s : List α) (v : α) : List α × Nat := (s ++ [v], s.length)

/-- `data.iter().position(|d| d == &value)` -/
def position (eq : α → α → Bool) (s : List α) (v : α) : Option Nat := s.findIdx? (fun d => eq d v)

/-- `Storage::fetch_or_append` -/
def fetchOrAppend (eq : α → α → Bool) (s : List α) (v : α) : List α × Nat :=
  match position eq s v with
  | some i => (s, i)
  | none => append s v

inductive Op (α : Type) where
  | append (v : α)
  | fetch (v : α)

def step (eq : α → α → Bool) (s : List α) : Op α → List α × Nat
  | .append v => append s v
  | .fetch v => fetchOrAppend eq s v

/-- run a history; returns the final storage and the tokens returned, in call order -/
def run (eq : α → α → Bool) : List α → List (Op α) → List α × List Nat
  | s, [] => (s, [])
  | s, op :: ops =>
    let r := step eq s op
    let rest := run eq r.1 ops
    (rest.1, r.2 :: rest.2)

end Rspirv.Model.Storage
