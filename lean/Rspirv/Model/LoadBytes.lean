import Rspirv.Model.Loader
import Rspirv.Model.Disasm
/-
`dr::load_bytes` = `Parser::new(bytes, &mut Loader).parse()`, the `Display` texts of every error it can return, and
`dis/main.rs` (`rspirv-dis`): print the disassembly or the one-line error message.

The parser model takes the consumer as a script indexed by callback number; the loader's answers depend on the
instructions it is handed. `loadBytes` therefore runs the parser with an always-continue consumer and replays the
delivered events into the loader: the first callback at which the loader fails is where the real parse stops with
`ConsumerError`, because the events before it do not depend on the consumer's answers (theorem `C14`).
-/
namespace Rspirv.Model

inductive LoadErr where
  | parse (e : PErr)
  | loader (e : LErr)
  | panic (site : String)
deriving Repr

/-- replay callbacks into the loader -/
def feed (L : LTables) : Option LState → List Ev → Except LoadErr (Option LState)
  | s, [] => .ok s
  | s, .init :: t => feed L s t
  | _, .header h :: t => feed L (some (LState.start h)) t
  | s, .inst i :: t =>
    match s with
    | none => .error (.panic "instruction before header")
    | some st =>
      match st.step L i with
      | .ok st' => feed L (some st') t
      | .error e => .error (.loader e)
  | s, .fin :: t =>
    match s with
    | none => .error (.panic "finalize before header")
    | some st =>
      match st.finalize with
      | .ok _ => feed L (some st) t
      | .error e => .error (.loader e)

/-- what `load_bytes` returns once the callbacks have been replayed -/
def loadResult (res : PRes PErr Unit) (s : Option LState) : Except LoadErr (Module Inst) :=
  match res with
  | .ok _ =>
    match s with
    | some st => .ok st.module
    | none => .error (.panic "no header")
  | .err e => .error (.parse e)
  | .panic site => .error (.panic site)

def loadWith (L : LTables) (r : Run) : Except LoadErr (Module Inst) :=
  match feed L none r.trace with
  | .error e => .error e
  | .ok s => loadResult r.result s

def loadBytes (G : Tables) (L : LTables) (bytes : List Nat) : Except LoadErr (Module Inst) :=
  loadWith L (parse G (fun _ => .continue_) bytes)

/-! ### `Display` of the errors -/

/-- `core::str::Utf8Error` of the first invalid sequence: (valid_up_to, error_len); the std validation loop -/
def utf8Error : List Nat → Nat → Option (Nat × Option Nat)
  | [], _ => none
  | b0 :: t, i =>
    if b0 < 128 then utf8Error t (i + 1)
    else if 194 ≤ b0 && b0 < 224 then
      match t with
      | [] => some (i, none)
      | b1 :: t' => if DState.isCont b1 then utf8Error t' (i + 2) else some (i, some 1)
    else if 224 ≤ b0 && b0 < 240 then
      match t with
      | [] => some (i, none)
      | b1 :: t1 =>
        if !(DState.isCont b1 && (if b0 == 224 then decide (160 ≤ b1) else if b0 == 237 then decide (b1 < 160) else true)) then some (i, some 1)
        else match t1 with
          | [] => some (i, none)
          | b2 :: t' => if DState.isCont b2 then utf8Error t' (i + 3) else some (i, some 2)
    else if 240 ≤ b0 && b0 < 245 then
      match t with
      | [] => some (i, none)
      | b1 :: t1 =>
        if !(DState.isCont b1 && (if b0 == 240 then decide (144 ≤ b1) else if b0 == 244 then decide (b1 < 144) else true)) then some (i, some 1)
        else match t1 with
          | [] => some (i, none)
          | b2 :: t2 =>
            if !DState.isCont b2 then some (i, some 2)
            else match t2 with
              | [] => some (i, none)
              | b3 :: t' => if DState.isCont b3 then utf8Error t' (i + 4) else some (i, some 3)
    else some (i, some 1)

def utf8ErrorText (bs : List Nat) : String :=
  match utf8Error bs 0 with
  | some (v, some n) => s!"invalid utf-8 sequence of {n} bytes from index {v}"
  | some (v, none) => s!"incomplete utf-8 byte sequence from index {v}"
  | none => "?"

/-- `Display for binary::DecodeError`; the string-decoding message embeds std's `Utf8Error` text for the bytes of the
string that starts at the reported offset -/
def decErrText (bytes : List Nat) : DErr → String
  | .streamExpected o => s!"expected more bytes in the stream at index {o}"
  | .limitReached o => s!"reached word limit at index {o}"
  | .decodeStringFailed o =>
    s!"cannot decode string at index {o}: {utf8ErrorText ((bytes.drop o).takeWhile (· != 0))}"
  | .unknown v o w =>
    -- the variant is named `<Kind>Unknown`
    s!"unknown value {w} for operand kind {((nameString v).dropEnd 7).toString} at index {o}"

def instErrText (bytes : List Nat) : IErr → String
  | .complete => "completed parsing"
  | .wordCountZero o i => s!"zero word count found for instruction #{i} at offset {o}"
  | .opcodeUnknown o i op => s!"unknown opcode ({op}) for instruction #{i} at offset {o}"
  | .operandExpected o i => s!"expected more operands for instruction #{i} at offset {o}"
  | .operandExceeded o i => s!"found extra operands for instruction #{i} at offset {o}"
  | .operandError e => s!"operand decoding error: {decErrText bytes e}"
  | .typeUnsupported o i => s!"unsupported type for instruction #{i} at offset {o}"
  | .specConstantOpIntegerIncorrect o i => s!"incorrect SpecConstantOp number for instruction #{i} at offset {o}"

def lErrText (core : List Entry) : LErr → String
  | .nestedFunction => "found nested function"
  | .unclosedFunction => "found unclosed function"
  | .mismatchedFunctionEnd => "found mismatched OpFunctionEnd"
  | .detachedFunctionParameter => "found function OpFunctionParameter not inside function"
  | .detachedBlock => "found block not inside function"
  | .nestedBlock => "found nested block"
  | .unclosedBlock => "found block without terminator"
  | .mismatchedTerminator => "found mismatched terminator"
  | .detachedInstruction op =>
    match lookupOpcode core op with
    | some e => s!"found instruction `\"{nameString e.name}\"` not inside block"
    | none => "found unknown instruction not inside block"

def pErrText (bytes : List Nat) : PErr → String
  | .consumerStop => "stop parsing requested by consumer"
  | .consumerError k => s!"consumer error: script{k}"
  | .headerIncomplete e => s!"incomplete module header: {decErrText bytes e}"
  | .headerIncorrect => "incorrect module header"
  | .endiannessUnsupported => "unsupported endianness"
  | .inst e => instErrText bytes e

/-- `format!("{}", err)` for the `ParseState` `load_bytes` returns; `none` = the process would have panicked -/
def loadErrText (core : List Entry) (bytes : List Nat) : LoadErr → Option String
  | .parse e => some (pErrText bytes e)
  | .loader e => some ("consumer error: " ++ lErrText core e)
  | .panic _ => none

/-- what `rspirv-dis <file>` writes to standard output for a readable file with the given contents
(`println!` of the disassembly or of the error); `none` = abnormal termination -/
def disMain (G : Tables) (L : LTables) (D : DisTables) (bytes : List Nat) : Option String :=
  match loadBytes G L bytes with
  | .ok m => some (disasText D m ++ "\n")
  | .error e => (loadErrText G.core bytes e).map (· ++ "\n")

end Rspirv.Model
