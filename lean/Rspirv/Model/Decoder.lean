import Rspirv.Generic.Enum
/-
Model of `binary::Decoder` (rspirv/binary/decoder.rs), statement by statement. `usize` arithmetic that can
overflow, slicing and indexing are explicit: where a debug build would panic the model answers `.panic site`,
so that "never panics" is an ordinary theorem about the model (C04/C11) instead of something the model
cannot express. Bytes and words are naturals with range side conditions stated where needed.
-/
namespace Rspirv.Model

/-- `DecodeError` (autogen_error.rs): the two stream errors, the string error (message not modelled) and the
generated `<Kind>Unknown(offset, word)` variants, identified by the variant's name code. -/
inductive DErr where
  | streamExpected (off : Nat)
  | limitReached (off : Nat)
  | decodeStringFailed (off : Nat)
  | unknown (variant : Nat) (off : Nat) (word : Nat)
deriving Repr, DecidableEq

inductive Res (α : Type) where
  | ok (a : α)
  | err (e : DErr)
  | panic (site : String)
deriving Repr, DecidableEq

def usizeMax : Nat := 2 ^ 64 - 1

structure DState where
  bytes : List Nat
  offset : Nat
  limit : Option Nat
deriving Repr, DecidableEq

namespace DState

def new (bytes : List Nat) : DState := { bytes, offset := 0, limit := none }

/-- `u32::from_le_bytes` of the four bytes at `off` -/
def le32 (bytes : List Nat) (off : Nat) : Nat :=
  bytes.getD off 0 + 256 * bytes.getD (off + 1) 0 + 65536 * bytes.getD (off + 2) 0 + 16777216 * bytes.getD (off + 3) 0

def hasLimit (d : DState) : Bool := d.limit.isSome
def limitReached (d : DState) : Bool := d.limit == some 0

/-- `Decoder::word` -/
def word (d : DState) : Res Nat × DState :=
  match d.limit with
  | some 0 => (.err (.limitReached d.offset), d)
  | lim =>
    -- `*self.limit.as_mut().unwrap() -= 1` (the limit is charged even if the read then fails)
    let d1 : DState := { d with limit := lim.map (· - 1) }
    if d1.offset ≥ d1.bytes.length ∨ d1.offset + 4 > d1.bytes.length then
      (.err (.streamExpected d1.offset), d1)
    else
      (.ok (le32 d1.bytes d1.offset), { d1 with offset := d1.offset + 4 })

/-- `Decoder::words n` : `for _ in 0..n { words.push(self.word()?) }` -/
def words : Nat → DState → Res (List Nat) × DState
  | 0, d => (.ok [], d)
  | n + 1, d =>
    match word d with
    | (.ok w, d1) =>
      match words n d1 with
      | (.ok ws, d2) => (.ok (w :: ws), d2)
      | (.err e, d2) => (.err e, d2)
      | (.panic s, d2) => (.panic s, d2)
    | (.err e, d1) => (.err e, d1)
    | (.panic s, d1) => (.panic s, d1)

/-- `Decoder::bit64` : low word first -/
def bit64 (d : DState) : Res Nat × DState :=
  match word d with
  | (.ok lo, d1) =>
    match word d1 with
    | (.ok hi, d2) => (.ok (hi * 4294967296 + lo), d2)
    | (.err e, d2) => (.err e, d2)
    | (.panic s, d2) => (.panic s, d2)
  | (.err e, d1) => (.err e, d1)
  | (.panic s, d1) => (.panic s, d1)

/-! #### UTF-8 validation (`str::from_utf8`), hand-written and fuzzed against the real function -/

def isCont (b : Nat) : Bool := 128 ≤ b && b < 192

def validUtf8 : List Nat → Bool
  | [] => true
  | b0 :: t =>
    if b0 < 128 then validUtf8 t
    else if 194 ≤ b0 && b0 < 224 then
      match t with
      | b1 :: t' => isCont b1 && validUtf8 t'
      | _ => false
    else if 224 ≤ b0 && b0 < 240 then
      match t with
      | b1 :: b2 :: t' =>
        isCont b1 && isCont b2 &&
        (if b0 == 224 then decide (160 ≤ b1) else if b0 == 237 then decide (b1 < 160) else true) && validUtf8 t'
      | _ => false
    else if 240 ≤ b0 && b0 < 245 then
      match t with
      | b1 :: b2 :: b3 :: t' =>
        isCont b1 && isCont b2 && isCont b3 &&
        (if b0 == 240 then decide (144 ≤ b1) else if b0 == 244 then decide (b1 < 144) else true) && validUtf8 t'
      | _ => false
    else false

/-- `limit.saturating_mul(WORD_NUM_BYTES)`, or the whole rest when unlimited -/
def strWindow (limit : Option Nat) (restLen : Nat) : Nat :=
  match limit with
  | some l => min (l * 4) usizeMax
  | none => restLen

/-- `Decoder::string` after the fix of commit 2fc78a6 (window clamped to the stream). The three potential
panic sites of the Rust text are kept explicit: the `rest[..n]` slice, the completeness arithmetic and the
limit subtraction. -/
def string (d : DState) : Res (List Nat) × DState :=
  -- let rest = self.bytes.get(self.offset..).unwrap_or(&[]);
  let rest := if d.offset ≤ d.bytes.length then d.bytes.drop d.offset else []
  -- limit.saturating_mul(4)
  let window := strWindow d.limit rest.length
  let n := min window rest.length
  if n > rest.length then (.panic "string: slice end out of range", d) else
  let slice := rest.take n
  match slice.findIdx? (· == 0) with
  | none =>
    match d.limit with
    | some _ => if window ≤ rest.length then (.err (.limitReached (d.offset + slice.length)), d)
                else (.err (.streamExpected d.offset), d)
    | none => (.err (.streamExpected d.offset), d)
  | some nul =>
    let consumed := nul / 4 + 1
    if consumed * 4 > usizeMax then (.panic "string: multiply overflow", d) else
    if consumed * 4 > slice.length then (.err (.streamExpected d.offset), d) else
    if !validUtf8 (slice.take nul) then (.err (.decodeStringFailed d.offset), d) else
    if d.offset + consumed * 4 > usizeMax then (.panic "string: offset overflow", d) else
    match d.limit with
    | some l =>
      if l < consumed then (.panic "string: limit underflow", d)
      else (.ok (slice.take nul), { d with offset := d.offset + consumed * 4, limit := some (l - consumed) })
    | none => (.ok (slice.take nul), { d with offset := d.offset + consumed * 4 })

/-- generated typed request for an enumeration (`autogen_decode_operand.rs` template):
`if let Ok(word) = self.word() { E::from_u32(word).ok_or(EUnknown(self.offset - 4, word)) } else { Err(StreamExpected(self.offset)) }` -/
def enum (E : EnumSpec) (errVariant : Nat) (d : DState) : Res Nat × DState :=
  match word d with
  | (.ok w, d1) =>
    match E.fromU32 w with
    | some v => (.ok v, d1)
    | none => if d1.offset < 4 then (.panic "enum: offset underflow", d1) else (.err (.unknown errVariant (d1.offset - 4) w), d1)
  | (.err _, d1) => (.err (.streamExpected d1.offset), d1)
  | (.panic s, d1) => (.panic s, d1)

def mask (M : MaskSpec) (errVariant : Nat) (d : DState) : Res Nat × DState :=
  match word d with
  | (.ok w, d1) =>
    match M.fromBits w with
    | some v => (.ok v, d1)
    | none => if d1.offset < 4 then (.panic "mask: offset underflow", d1) else (.err (.unknown errVariant (d1.offset - 4) w), d1)
  | (.err _, d1) => (.err (.streamExpected d1.offset), d1)
  | (.panic s, d1) => (.panic s, d1)

def setLimit (n : Nat) (d : DState) : DState := { d with limit := some n }
def clearLimit (d : DState) : DState := { d with limit := none }

end DState
end Rspirv.Model
