import Rspirv.Model.Builder
import Rspirv.Model.Spec
import Rspirv.Model.Assemble
/-
Executable (Boolean) forms of the hypotheses of the end-to-end theorems `C06_roundtrip` / `assemble_load`
(`Props/C06Round.lean`, `Props/RoundTrip.lean`), so that the driver can report for every history the correspondence
check generates whether it lies inside the theorems' scope. Soundness (`= true` implies the `Prop`) is proved next to
the theorems.
-/
namespace Rspirv.Model

def plainAtB (L : LTables) (s : BState) : Call → Bool
  | .id => true
  | .setVersion _ _ => true
  | .beginFunction _ _ _ _ => true
  | .endFunction => s.selBlk.isNone
  | .functionParameter _ => true
  | .beginBlock _ => true
  | .blockInst _ op _ _ _ => decide (classify L op = .other)
  | .terminator ip op _ => (decide (ip = .end_) || decide (ip = .fromEnd 0)) && decide (classify L op = .term)
  | .moduleInst k op _ _ _ => decide (classify L op = .sect k)
  | .varUndef op _ _ _ => decide (classify L op = .varOp) || decide (classify L op = .undefOp)
  | .lineLike op _ => decide (classify L op = .line)
  | .typeRequest op _ _ => decide (classify L op = .sect 10)
  | _ => false

def plainRunB (L : LTables) (B : BTables) : BState → List Call → Bool
  | _, [] => true
  | s, c :: cs => plainAtB L s c && plainRunB L B (s.step B c).1 cs

/-- every instruction is recognised from its own encoding under the types tracked so far -/
def grammarStreamB (G : Tables) : Tracker → List Inst → Bool
  | _, [] => true
  | τ, i :: t =>
    decide (Spec.inst G τ (assembleInst i) = some (i, [])) && decide ((assembleInst i).length < 65536) &&
      (match τ.track G.tt i with
       | some τ1 => grammarStreamB G τ1 t
       | none => false)

end Rspirv.Model
