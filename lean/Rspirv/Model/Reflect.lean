import Rspirv.Model.Assemble
/-
Model of the reflection functions of `dr/autogen_operand.rs` interpreted from translated tables:
`additional_operands`, `required_capabilities`/`required_extensions`, `id_ref_any`.
-/
namespace Rspirv.Model

/-- `v.contains(FLAG)` of bitflags: all bits of the flag are set -/
def maskContains (v flag : Nat) : Bool := v &&& flag == flag
/-- `v.intersects(A | B | ..)` -/
def maskIntersects (v : Nat) (flags : List Nat) : Bool := (v &&& flags.foldl (· ||| ·) 0) != 0

/-- `Operand::additional_operands` for a parameterised variant: grouped mask form
(`[flags].iter().filter(|f| v.contains(f)).flat_map(|_| params)` per group, in source order) or enum form (first arm
listing the value) -/
def addOperandsOf (isMask : Bool) (rows : List (List Nat × List (Nat × Nat))) (v : Nat) : List (Nat × Nat) :=
  if isMask then rows.flatMap (fun r => (r.1.filter (maskContains v)).flatMap (fun _ => r.2))
  else match rows.find? (fun r => r.1.contains v) with
    | some r => r.2
    | none => []

/-- `required_capabilities` / `required_extensions` -/
def requiredOf (isMask : Bool) (rows : List (List Nat × List Nat)) (v : Nat) : List Nat :=
  if isMask then rows.flatMap (fun r => if maskIntersects v r.1 then r.2 else [])
  else match rows.find? (fun r => r.1.contains v) with
    | some r => r.2
    | none => []

/-- what the parser consumes after value `v` of a parameterised kind (from `kindActs`) -/
def parserParams : KindAct → Nat → List Elem
  | .maskParams _ rows, v => (rows.filter (fun r => maskContains v r.1)).flatMap (·.2)
  | .enumParams _ rows, v => match rows.find? (fun r => r.1 == v) with
    | some r => r.2
    | none => []
  | _, _ => []

/-- decode elements a context-free logical operand kind stands for -/
def kindElems (acts : List KindAct) (k : Nat) : List Elem :=
  match acts[k]? with
  | some (.elems es) => es
  | _ => []

/-- replace operand number `k` -/
def Inst.setOperand (i : Inst) (k : Nat) (o : Operand) : Inst := { i with operands := i.operands.set k o }

end Rspirv.Model
