import Rspirv.Model.Spec
import Rspirv.Model.Assemble
/-
The grammar as a **typing judgement on data-representation instructions** (`dr::Instruction`: opcode, result type,
result id, operand list) — no words, no bytes, no recogniser: which operand lists the logical operands of a grammar entry
admit.

* `ElemT G e o`     : operand `o` is a value of element `e` (an enumerant that is declared, a mask with declared bits only,
                       any id/literal word, a string the decoder can return);
* `OperandT G k os` : `os` is one occurrence of the context-free kind `k` — its elements, or a mask / enumerant followed
                       by exactly the parameters its value demands;
* `LiteralT`        : a context-dependent literal of the width the tracked type `ty` dictates;
* `NestedT`/`SpecOpT`: the operands embedded in `OpSpecConstantOp`;
* `OneT`            : one logical operand of an instruction (context-dependent number, literal/label pair of `OpSwitch`,
                       spec-constant operation, or a context-free kind);
* `LoopT`           : an operand list against the logical operands (required / optional / variadic) of an entry;
* `InstT G τ i`     : instruction `i` conforms to the grammar under the numeric types tracked in `τ`.

`Props/C02Typed.lean` proves that every conforming instruction is read back from the assembler's words
(`typed_spec`), so `InstT` can replace "produced by the recogniser" wherever a grammar-conforming instruction is needed.
-/
namespace Rspirv.Model.Typed
open Rspirv Rspirv.Model Rspirv.Model.DState

/-- a string the decoder can return: bytes, no NUL, valid UTF-8 -/
def StrOk (bs : List Nat) : Prop := (∀ b ∈ bs, b < 256) ∧ (∀ b ∈ bs, b ≠ 0) ∧ validUtf8 bs = true

/-- `o` is a value of element `e` -/
def ElemT (G : Tables) (e : Elem) : Operand → Prop
  | .w v x => v = e.variant ∧
      (if e.dec == 0 then ∃ E, G.enums[e.ix]? = some E ∧ E.fromU32 x = some x
       else if e.dec == 1 then ∃ M, G.masks[e.ix]? = some M ∧ M.fromBits x = some x
       else (e.dec == 2) = true)
  | .s bs => (e.dec == 0) = false ∧ (e.dec == 1) = false ∧ (e.dec == 2) = false ∧ StrOk bs
  | .q _ => False

inductive ElemsT (G : Tables) : List Elem → List Operand → Prop
  | nil : ElemsT G [] []
  | cons {e : Elem} {es : List Elem} {o : Operand} {os : List Operand} :
      ElemT G e o → ElemsT G es os → ElemsT G (e :: es) (o :: os)

/-- one occurrence of a context-free kind -/
def OperandT (G : Tables) (k : Nat) (os : List Operand) : Prop :=
  match G.kindActs[k]? with
  | some (.elems es) => ElemsT G es os
  | some (.maskParams e rows) => ∃ v ps, os = v :: ps ∧ ElemT G e v ∧ ElemsT G (maskSel rows v.num) ps
  | some (.enumParams e rows) => ∃ v ps, os = v :: ps ∧ ElemT G e v ∧ ElemsT G (enumSel rows v.num) ps
  | _ => False

/-- one-word literal -/
def Lit1T (G : Tables) (o : Operand) : Prop := ∃ x, o = .w G.vLit32 x
/-- two-word literal -/
def Lit2T (o : Operand) : Prop := ∃ v, o = .q v ∧ v < 18446744073709551616

/-- a literal of the width the type `ty` dictates (one word when the type is not tracked) -/
def LiteralT (G : Tables) (τ : Tracker) (ty : Nat) (o : Operand) : Prop :=
  match τ.resolve ty with
  | some (.int w _) => if w == 8 || w == 16 || w == 32 then Lit1T G o else if w == 64 then Lit2T o else False
  | some (.float w) => if w == 16 || w == 32 then Lit1T G o else if w == 64 then Lit2T o else False
  | none => Lit1T G o

/-- a run of occurrences of a kind -/
inductive ManyT (G : Tables) (k : Nat) : List Operand → Prop
  | nil : ManyT G k []
  | cons {g os : List Operand} : OperandT G k g → ManyT G k os → ManyT G k (g ++ os)

/-- the operands of the opcode embedded in `OpSpecConstantOp` (its result kinds carry no operand) -/
inductive NestedT (G : Tables) : List (Nat × Nat) → List Operand → Prop
  | nil : NestedT G [] []
  | res {k q : Nat} {rest : List (Nat × Nat)} {os : List Operand} :
      (k == G.kIdResultType || k == G.kIdResult) = true → NestedT G rest os → NestedT G ((k, q) :: rest) os
  | one {k q : Nat} {rest : List (Nat × Nat)} {g os : List Operand} :
      (k == G.kIdResultType || k == G.kIdResult) = false → (q == 0) = true →
      OperandT G k g → NestedT G rest os → NestedT G ((k, q) :: rest) (g ++ os)
  | optNone {k q : Nat} {rest : List (Nat × Nat)} :
      (k == G.kIdResultType || k == G.kIdResult) = false → (q == 0) = false → (q == 1) = true →
      NestedT G rest [] → NestedT G ((k, q) :: rest) []
  | optSome {k q : Nat} {rest : List (Nat × Nat)} {g os : List Operand} :
      (k == G.kIdResultType || k == G.kIdResult) = false → (q == 0) = false → (q == 1) = true →
      OperandT G k g → NestedT G rest os → NestedT G ((k, q) :: rest) (g ++ os)
  | many {k q : Nat} {rest : List (Nat × Nat)} {g : List Operand} :
      (k == G.kIdResultType || k == G.kIdResult) = false → (q == 0) = false → (q == 1) = false →
      ManyT G k g → NestedT G rest [] → NestedT G ((k, q) :: rest) g

/-- the operand run of `OpSpecConstantOp`: the embedded opcode (context-free, 16 bits), then its operands -/
def SpecOpT (G : Tables) (os : List Operand) : Prop :=
  ∃ e rest, os = .w G.vSpecOp e.opcode :: rest ∧ e.opcode ≤ 65535 ∧ lookupOpcode G.core e.opcode = some e ∧
    (e.ops.any (fun o => isCtxKind G o.1)) = false ∧ NestedT G e.ops rest

/-- one logical operand (not a result kind) of an instruction with result type `rt` whose operands so far are `pre` -/
def OneT (G : Tables) (τ : Tracker) (opcode : Nat) (rt : Option Nat) (pre : List Operand) (k : Nat) (os : List Operand) : Prop :=
  if k == G.kCtxNumber then
    (opcode == G.opConstant || opcode == G.opSpecConstant) = true ∧
      ∃ ty o, rt = some ty ∧ os = [o] ∧ LiteralT G τ ty o
  else if k == G.kPairLitId then
    (opcode == G.opSwitch) = true ∧
      ∃ sel tl lit tgt, pre = .w G.vIdRef sel :: tl ∧ os = [lit, .w G.vIdRef tgt] ∧ LiteralT G τ sel lit
  else if k == G.kSpecOp then SpecOpT G os
  else OperandT G k os

/-- an operand list against logical operands: a required or present optional operand is matched once, a variadic one
repeatedly; when the operands are used up the next logical operand must not be required -/
inductive LoopT (G : Tables) (τ : Tracker) (opcode : Nat) (rt : Option Nat) :
    List (Nat × Nat) → List Operand → List Operand → Prop
  | nil {pre : List Operand} : LoopT G τ opcode rt [] pre []
  | stop {k q : Nat} {rest : List (Nat × Nat)} {pre : List Operand} :
      (q == 0) = false → LoopT G τ opcode rt ((k, q) :: rest) pre []
  | step {k q : Nat} {rest : List (Nat × Nat)} {pre g os : List Operand} :
      (q == 2) = false → OneT G τ opcode rt pre k g → LoopT G τ opcode rt rest (pre ++ g) os →
      LoopT G τ opcode rt ((k, q) :: rest) pre (g ++ os)
  | rep {k q : Nat} {rest : List (Nat × Nat)} {pre g os : List Operand} :
      (q == 2) = true → OneT G τ opcode rt pre k g → LoopT G τ opcode rt ((k, q) :: rest) (pre ++ g) os →
      LoopT G τ opcode rt ((k, q) :: rest) pre (g ++ os)

/-- is `k` one of the two result kinds -/
def isRes (G : Tables) (k : Nat) : Bool := k == G.kIdResultType || k == G.kIdResult

/-- **instruction `i` conforms to the grammar** under the tracked types `τ`: its opcode has an entry; it has a result
type / result id exactly when the entry lists one; its operands match the entry's other logical operands; and its
encoding fits the 16-bit word count. -/
def InstT (G : Tables) (τ : Tracker) (i : Inst) : Prop :=
  ∃ e, lookupOpcode G.core i.opcode = some e ∧
    i.rtype.isSome = e.ops.any (fun o => o.1 == G.kIdResultType) ∧
    i.rid.isSome = e.ops.any (fun o => o.1 == G.kIdResult) ∧
    LoopT G τ i.opcode i.rtype (e.ops.filter (fun o => !isRes G o.1)) [] i.operands ∧
    (assembleInst i).length < 65536

end Rspirv.Model.Typed
