import Rspirv.Generic.Method
/-
The hand-written instruction-emitting methods of `dr/build/mod.rs`, each as the `Call` it makes.
-/
namespace Rspirv.Model
open Rspirv

/-- numbers the hand-written methods mention by name -/
structure HTables where
  opCapability : Nat
  opExtension : Nat
  opExtInstImport : Nat
  opMemoryModel : Nat
  opEntryPoint : Nat
  opExecutionMode : Nat
  opExecutionModeId : Nat
  opExtInst : Nat
  opLine : Nat
  opNoLine : Nat
  opDecorationGroup : Nat
  opString : Nat
  opTypeForwardPointer : Nat
  opTypePointer : Nat
  opTypeOpaque : Nat
  opConstant : Nat
  opSpecConstant : Nat
  opVariable : Nat
  opUndef : Nat
  vCapability : Nat
  vAddressingModel : Nat
  vMemoryModel : Nat
  vExecutionModel : Nat
  vExecutionMode : Nat
  vStorageClass : Nat
  vIdRef : Nat
  vLit32 : Nat
  vExtInstInteger : Nat

/-- the hand-written methods by name: `name` applied to `args` (already parsed by shape); `none` = wrong arguments -/
def handTable (H : HTables) : List (String × (List Arg → Option Call)) :=
  [
   ("id", fun args => match args with
      | [] => some .id
      | _ => none),
   ("set_version", fun args => match args with
      | [.n a, .n b] => some (.setVersion a b)
      | _ => none),
   ("begin_function", fun args => match args with
      | [.n rt, .optN fid, .n control, .n ftype] => some (.beginFunction rt fid control ftype)
      | _ => none),
   ("end_function", fun args => match args with
      | [] => some .endFunction
      | _ => none),
   ("function_parameter", fun args => match args with
      | [.n rt] => some (.functionParameter rt)
      | _ => none),
   ("begin_block", fun args => match args with
      | [.optN l] => some (.beginBlock l)
      | _ => none),
   ("begin_block_no_label", fun args => match args with
      | [.optN l] => some (.beginBlockNoLabel l)
      | _ => none),
   ("select_function", fun args => match args with
      | [.optN i] => some (.selectFunction i)
      | _ => none),
   ("select_block", fun args => match args with
      | [.optN i] => some (.selectBlock i)
      | _ => none),
   ("pop_instruction", fun args => match args with
      | [] => some .popInstruction
      | _ => none),
   ("capability", fun args => match args with
      | [.n c] => some (.moduleInst 0 H.opCapability none .none [.w H.vCapability c])
      | _ => none),
   ("extension", fun args => match args with
      | [.str b] => some (.moduleInst 1 H.opExtension none .none [.s b])
      | _ => none),
   ("ext_inst_import", fun args => match args with
      | [.str b] => some (.moduleInst 2 H.opExtInstImport none .fresh [.s b])
      | _ => none),
   ("memory_model", fun args => match args with
      | [.n a, .n m] =>  some (.moduleInst 3 H.opMemoryModel none .none [.w H.vAddressingModel a, .w H.vMemoryModel m])
      | _ => none),
   ("entry_point", fun args => match args with
      | [.n model, .n ep, .str name, .ns iface] =>  some (.moduleInst 4 H.opEntryPoint none .none ([.w H.vExecutionModel model, .w H.vIdRef ep, .s name] ++ iface.map (.w H.vIdRef)))
      | _ => none),
   ("execution_mode", fun args => match args with
      | [.n ep, .n mode, .ns params] =>  some (.moduleInst 5 H.opExecutionMode none .none ([.w H.vIdRef ep, .w H.vExecutionMode mode] ++ params.map (.w H.vLit32)))
      | _ => none),
   ("execution_mode_id", fun args => match args with
      | [.n ep, .n mode, .ns params] =>  some (.moduleInst 5 H.opExecutionModeId none .none ([.w H.vIdRef ep, .w H.vExecutionMode mode] ++ params.map (.w H.vIdRef)))
      | _ => none),
   ("ext_inst", fun args => match args with
      | [.n rt, .optN rid, .n set, .n inst, .ops ops] =>  some (.blockInst .end_ H.opExtInst (some rt) (.given rid) ([.w H.vIdRef set, .w H.vExtInstInteger inst] ++ ops))
      | _ => none),
   ("line", fun args => match args with
      | [.n f, .n l, .n c] => some (.lineLike H.opLine [.w H.vIdRef f, .w H.vLit32 l, .w H.vLit32 c])
      | _ => none),
   ("no_line", fun args => match args with
      | [] => some (.lineLike H.opNoLine [])
      | _ => none),
   ("decoration_group", fun args => match args with
      | [] => some (.moduleInst 9 H.opDecorationGroup none .fresh [])
      | _ => none),
   ("string", fun args => match args with
      | [.str b] => some (.moduleInst 6 H.opString none .fresh [.s b])
      | _ => none),
   ("type_forward_pointer", fun args => match args with
      | [.n p, .n sc] =>  some (.moduleInst 10 H.opTypeForwardPointer none .none [.w H.vIdRef p, .w H.vStorageClass sc])
      | _ => none),
   ("type_pointer", fun args => match args with
      | [.optN rid, .n sc, .n pointee] =>  some (.typeRequest H.opTypePointer rid [.w H.vStorageClass sc, .w H.vIdRef pointee])
      | _ => none),
   ("type_opaque", fun args => match args with
      | [.str b] => some (.moduleInst 10 H.opTypeOpaque none .fresh [.s b])
      | _ => none),
   ("constant_bit32", fun args => match args with
      | [.n rt, .n v] => some (.moduleInst 10 H.opConstant (some rt) .fresh [.w H.vLit32 v])
      | _ => none),
   ("constant_bit64", fun args => match args with
      | [.n rt, .n v] => some (.moduleInst 10 H.opConstant (some rt) .fresh [.q v])
      | _ => none),
   ("spec_constant_bit32", fun args => match args with
      | [.n rt, .n v] => some (.moduleInst 10 H.opSpecConstant (some rt) .fresh [.w H.vLit32 v])
      | _ => none),
   ("spec_constant_bit64", fun args => match args with
      | [.n rt, .n v] => some (.moduleInst 10 H.opSpecConstant (some rt) .fresh [.q v])
      | _ => none),
   ("variable", fun args => match args with
      | [.n rt, .optN rid, .n sc, .optN init] =>  some (.varUndef H.opVariable rt rid ([.w H.vStorageClass sc] ++ (init.map (.w H.vIdRef)).toList))
      | _ => none),
   ("undef", fun args => match args with
      | [.n rt, .optN rid] => some (.varUndef H.opUndef rt rid [])
      | _ => none)]

def handCall (H : HTables) (name : String) (args : List Arg) : Option Call :=
  match (handTable H).find? (fun p => p.1 == name) with
  | some p => p.2 args
  | none => none

/-- argument shapes of the hand-written methods (for the driver's parser) -/
def handShapes : List (String × List PType) :=
  [("id", []), ("set_version", [.u32, .u32]), ("begin_function", [.word, .opt .word, .u32, .word]), ("end_function", []),
   ("function_parameter", [.word]), ("begin_block", [.opt .word]), ("begin_block_no_label", [.opt .word]),
   ("select_function", [.opt .word]), ("select_block", [.opt .word]), ("pop_instruction", []),
   ("capability", [.u32]), ("extension", [.str]), ("ext_inst_import", [.str]), ("memory_model", [.u32, .u32]),
   ("entry_point", [.u32, .word, .str, .iterWord]), ("execution_mode", [.word, .u32, .iterU32]),
   ("execution_mode_id", [.word, .u32, .iterU32]), ("ext_inst", [.word, .opt .word, .word, .word, .iterOperand]),
   ("line", [.word, .u32, .u32]), ("no_line", []), ("decoration_group", []), ("string", [.str]),
   ("type_forward_pointer", [.word, .u32]), ("type_pointer", [.opt .word, .u32, .word]), ("type_opaque", [.str]),
   ("constant_bit32", [.word, .u32]), ("constant_bit64", [.word, .u32]), ("spec_constant_bit32", [.word, .u32]),
   ("spec_constant_bit64", [.word, .u32]), ("variable", [.word, .opt .word, .u32, .opt .word]), ("undef", [.word, .opt .word])]

end Rspirv.Model
