import Rspirv.Generic.Method
/-
The hand-written instruction-emitting methods of `dr/build/mod.rs`, each as the `Call` it makes.
-/
namespace Rspirv.Model
open Rspirv

/-- numbers the hand-written methods mention by name -/
structure HTables where
  opCapability : Nat
  opExtension : Nat
  opExtInstImport : Nat
  opMemoryModel : Nat
  opEntryPoint : Nat
  opExecutionMode : Nat
  opExecutionModeId : Nat
  opExtInst : Nat
  opLine : Nat
  opNoLine : Nat
  opDecorationGroup : Nat
  opString : Nat
  opTypeForwardPointer : Nat
  opTypePointer : Nat
  opTypeOpaque : Nat
  opConstant : Nat
  opSpecConstant : Nat
  opVariable : Nat
  opUndef : Nat
  vCapability : Nat
  vAddressingModel : Nat
  vMemoryModel : Nat
  vExecutionModel : Nat
  vExecutionMode : Nat
  vStorageClass : Nat
  vIdRef : Nat
  vLit32 : Nat
  vExtInstInteger : Nat

/-- `name` applied to `args` (already parsed by shape); `none` = not a hand-written method / wrong arguments -/
def handCall (H : HTables) (name : String) (args : List Arg) : Option Call :=
  match name, args with
  | "id", [] => some .id
  | "set_version", [.n a, .n b] => some (.setVersion a b)
  | "begin_function", [.n rt, .optN fid, .n control, .n ftype] => some (.beginFunction rt fid control ftype)
  | "end_function", [] => some .endFunction
  | "function_parameter", [.n rt] => some (.functionParameter rt)
  | "begin_block", [.optN l] => some (.beginBlock l)
  | "begin_block_no_label", [.optN l] => some (.beginBlockNoLabel l)
  | "select_function", [.optN i] => some (.selectFunction i)
  | "select_block", [.optN i] => some (.selectBlock i)
  | "pop_instruction", [] => some .popInstruction
  | "capability", [.n c] => some (.moduleInst 0 H.opCapability none .none [.w H.vCapability c])
  | "extension", [.str b] => some (.moduleInst 1 H.opExtension none .none [.s b])
  | "ext_inst_import", [.str b] => some (.moduleInst 2 H.opExtInstImport none .fresh [.s b])
  | "memory_model", [.n a, .n m] =>
    some (.moduleInst 3 H.opMemoryModel none .none [.w H.vAddressingModel a, .w H.vMemoryModel m])
  | "entry_point", [.n model, .n ep, .str name, .ns iface] =>
    some (.moduleInst 4 H.opEntryPoint none .none
      ([.w H.vExecutionModel model, .w H.vIdRef ep, .s name] ++ iface.map (.w H.vIdRef)))
  | "execution_mode", [.n ep, .n mode, .ns params] =>
    some (.moduleInst 5 H.opExecutionMode none .none
      ([.w H.vIdRef ep, .w H.vExecutionMode mode] ++ params.map (.w H.vLit32)))
  | "execution_mode_id", [.n ep, .n mode, .ns params] =>
    some (.moduleInst 5 H.opExecutionModeId none .none
      ([.w H.vIdRef ep, .w H.vExecutionMode mode] ++ params.map (.w H.vIdRef)))
  | "ext_inst", [.n rt, .optN rid, .n set, .n inst, .ops ops] =>
    some (.blockInst .end_ H.opExtInst (some rt) (.given rid) ([.w H.vIdRef set, .w H.vExtInstInteger inst] ++ ops))
  | "line", [.n f, .n l, .n c] => some (.lineLike H.opLine [.w H.vIdRef f, .w H.vLit32 l, .w H.vLit32 c])
  | "no_line", [] => some (.lineLike H.opNoLine [])
  | "decoration_group", [] => some (.moduleInst 9 H.opDecorationGroup none .fresh [])
  | "string", [.str b] => some (.moduleInst 6 H.opString none .fresh [.s b])
  | "type_forward_pointer", [.n p, .n sc] =>
    some (.moduleInst 10 H.opTypeForwardPointer none .none [.w H.vIdRef p, .w H.vStorageClass sc])
  | "type_pointer", [.optN rid, .n sc, .n pointee] =>
    some (.typeRequest H.opTypePointer rid [.w H.vStorageClass sc, .w H.vIdRef pointee])
  | "type_opaque", [.str b] => some (.moduleInst 10 H.opTypeOpaque none .fresh [.s b])
  | "constant_bit32", [.n rt, .n v] => some (.moduleInst 10 H.opConstant (some rt) .fresh [.w H.vLit32 v])
  | "constant_bit64", [.n rt, .n v] => some (.moduleInst 10 H.opConstant (some rt) .fresh [.q v])
  | "spec_constant_bit32", [.n rt, .n v] => some (.moduleInst 10 H.opSpecConstant (some rt) .fresh [.w H.vLit32 v])
  | "spec_constant_bit64", [.n rt, .n v] => some (.moduleInst 10 H.opSpecConstant (some rt) .fresh [.q v])
  | "variable", [.n rt, .optN rid, .n sc, .optN init] =>
    some (.varUndef H.opVariable rt rid ([.w H.vStorageClass sc] ++ (init.map (.w H.vIdRef)).toList))
  | "undef", [.n rt, .optN rid] => some (.varUndef H.opUndef rt rid [])
  | _, _ => none

/-- argument shapes of the hand-written methods (for the driver's parser) -/
def handShapes : List (String × List PType) :=
  [("id", []), ("set_version", [.u32, .u32]), ("begin_function", [.word, .opt .word, .u32, .word]), ("end_function", []),
   ("function_parameter", [.word]), ("begin_block", [.opt .word]), ("begin_block_no_label", [.opt .word]),
   ("select_function", [.opt .word]), ("select_block", [.opt .word]), ("pop_instruction", []),
   ("capability", [.u32]), ("extension", [.str]), ("ext_inst_import", [.str]), ("memory_model", [.u32, .u32]),
   ("entry_point", [.u32, .word, .str, .iterWord]), ("execution_mode", [.word, .u32, .iterU32]),
   ("execution_mode_id", [.word, .u32, .iterU32]), ("ext_inst", [.word, .opt .word, .word, .word, .iterOperand]),
   ("line", [.word, .u32, .u32]), ("no_line", []), ("decoration_group", []), ("string", [.str]),
   ("type_forward_pointer", [.word, .u32]), ("type_pointer", [.opt .word, .u32, .word]), ("type_opaque", [.str]),
   ("constant_bit32", [.word, .u32]), ("constant_bit64", [.word, .u32]), ("spec_constant_bit32", [.word, .u32]),
   ("spec_constant_bit64", [.word, .u32]), ("variable", [.word, .opt .word, .u32, .opt .word]), ("undef", [.word, .opt .word])]

end Rspirv.Model
