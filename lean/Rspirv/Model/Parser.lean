import Rspirv.Model.Decoder
import Rspirv.Model.Module
import Rspirv.Generic.Grammar
/-
Model of the hand-written part of `binary/parser.rs` (header, instruction framing, the operand loop,
context dependent literals, OpSpecConstantOp, the consumer protocol), of `binary/tracker.rs` (TypeTracker)
and of the generated `parse_operand` interpreted from regenerated tables. Statement by statement; every
`assert!`, `expect`, `panic!()` and index of the Rust text is an explicit `.panic` outcome.
-/
namespace Rspirv.Model

/-- `dr::Operand` in generic form: every one-word variant carries its number (`as u32`, `.bits()`, or the word). -/
inductive Operand where
  | w (variant : Nat) (v : Nat)
  | q (v : Nat)            -- LiteralBit64
  | s (bytes : List Nat)   -- LiteralString (UTF-8 bytes)
deriving Repr, DecidableEq

structure Inst where
  opcode : Nat
  rtype : Option Nat
  rid : Option Nat
  operands : List Operand
deriving Repr, DecidableEq

/-- errors `Parser::parse_inst` can produce (a sub-enumeration of `binary::ParseState`; `complete` is the internal
end-of-stream marker). Keeping them in their own type makes "an instruction-level parse never yields a consumer
state" true by construction. -/
inductive IErr where
  | complete
  | wordCountZero (off idx : Nat)
  | opcodeUnknown (off idx op : Nat)
  | operandExpected (off idx : Nat)
  | operandExceeded (off idx : Nat)
  | operandError (e : DErr)
  | typeUnsupported (off idx : Nat)
  | specConstantOpIntegerIncorrect (off idx : Nat)
deriving Repr, DecidableEq

/-- `binary::ParseState` as returned by `Parser::parse` -/
inductive PErr where
  | consumerStop
  | consumerError (k : Nat)
  | headerIncomplete (e : DErr)
  | headerIncorrect
  | endiannessUnsupported
  | inst (e : IErr)
deriving Repr, DecidableEq

inductive PRes (ε α : Type) where
  | ok (a : α)
  | err (e : ε)
  | panic (site : String)
deriving Repr

/-- everything the parser is parametrised by; regenerated from the source on every run -/
structure Tables where
  core : List Entry
  kindActs : List KindAct
  enums : List EnumSpec
  masks : List MaskSpec
  /-- `grammar::reflect::is_type` (extracted truth table) -/
  isType : Nat → Bool
  kIdResultType : Nat
  kIdResult : Nat
  kCtxNumber : Nat
  kPairLitId : Nat
  kSpecOp : Nat
  vIdRef : Nat
  vLit32 : Nat
  vSpecOp : Nat
  opConstant : Nat
  opSpecConstant : Nat
  opSwitch : Nat
  opTypeInt : Nat
  opTypeFloat : Nat
  magic : Nat

/-! ### TypeTracker -/

inductive TType where
  | int (width : Nat) (signed : Bool)
  | float (width : Nat)
deriving Repr, DecidableEq

/-- the `HashMap<Word, Type>`: association list, newest binding first (`insert` overwrites) -/
abbrev Tracker := List (Nat × TType)

def Tracker.resolve (τ : Tracker) (id : Nat) : Option TType :=
  match τ.find? (fun p => p.1 == id) with
  | some p => some p.2
  | none => none

/-- what the type tracker looks at -/
structure TTables where
  isType : Nat → Bool
  opTypeInt : Nat
  opTypeFloat : Nat
  vLit32 : Nat

def Tables.tt (G : Tables) : TTables := ⟨G.isType, G.opTypeInt, G.opTypeFloat, G.vLit32⟩

/-- `TypeTracker::track`; `none` = index out of bounds panic -/
def Tracker.track (G : TTables) (τ : Tracker) (i : Inst) : Option Tracker :=
  match i.rid with
  | none => some τ
  | some rid =>
    if G.isType i.opcode then
      if i.opcode == G.opTypeInt then
        match i.operands with
        | o0 :: o1 :: _ =>
          match o0, o1 with
          | .w v0 bits, .w v1 sign => if v0 == G.vLit32 && v1 == G.vLit32 then some ((rid, .int bits (sign == 1)) :: τ) else some τ
          | _, _ => some τ
        | _ => none
      else if i.opcode == G.opTypeFloat then
        match i.operands with
        | o0 :: _ =>
          match o0 with
          | .w v0 bits => if v0 == G.vLit32 then some ((rid, .float bits) :: τ) else some τ
          | _ => some τ
        | _ => none
      else some τ
    else
      match i.rtype.bind τ.resolve with
      | some t => some ((rid, t) :: τ)
      | none => some τ

/-! ### generated `parse_operand`, interpreted -/

def liftD {α} : Res α → PRes IErr α
  | .ok a => .ok a
  | .err e => .err (.operandError e)
  | .panic s => .panic s

/-- one `dr::Operand::V(self.decoder.m()?)` -/
def decodeElem (G : Tables) (e : Elem) (d : DState) : PRes IErr Operand × DState :=
  if e.dec == 0 then
    match G.enums[e.ix]? with
    | some E => match DState.enum E e.ev d with
      | (.ok v, d') => (.ok (.w e.variant v), d')
      | (.err x, d') => (.err (.operandError x), d')
      | (.panic s, d') => (.panic s, d')
    | none => (.panic "table: unknown enum", d)
  else if e.dec == 1 then
    match G.masks[e.ix]? with
    | some M => match DState.mask M e.ev d with
      | (.ok v, d') => (.ok (.w e.variant v), d')
      | (.err x, d') => (.err (.operandError x), d')
      | (.panic s, d') => (.panic s, d')
    | none => (.panic "table: unknown mask", d)
  else if e.dec == 2 then
    match DState.word d with
    | (.ok v, d') => (.ok (.w e.variant v), d')
    | (.err x, d') => (.err (.operandError x), d')
    | (.panic s, d') => (.panic s, d')
  else
    match DState.string d with
    | (.ok bs, d') => (.ok (.s bs), d')
    | (.err x, d') => (.err (.operandError x), d')
    | (.panic s, d') => (.panic s, d')

def decodeElems (G : Tables) : List Elem → DState → PRes IErr (List Operand) × DState
  | [], d => (.ok [], d)
  | e :: es, d =>
    match decodeElem G e d with
    | (.ok o, d1) =>
      match decodeElems G es d1 with
      | (.ok os, d2) => (.ok (o :: os), d2)
      | r => r
    | (.err x, d1) => (.err x, d1)
    | (.panic s, d1) => (.panic s, d1)

/-- value of a one-word operand -/
def Operand.num : Operand → Nat
  | .w _ v => v
  | .q v => v
  | .s _ => 0

/-- `if val.contains(FLAG) { .. }` per row : (val & FLAG) == FLAG, in source order -/
def maskSel (rows : List (Nat × List Elem)) (v : Nat) : List Elem :=
  (rows.filter (fun r => v &&& r.1 == r.1)).flatMap (·.2)

/-- `match val { X => vec![..], .., _ => vec![] }` : first matching row -/
def enumSel (rows : List (Nat × List Elem)) (v : Nat) : List Elem :=
  match rows.find? (fun r => r.1 == v) with
  | some r => r.2
  | none => []

/-- `Parser::parse_operand(kind)` -/
def parseOperand (G : Tables) (kind : Nat) (d : DState) : PRes IErr (List Operand) × DState :=
  match G.kindActs[kind]? with
  | none => (.panic "table: unknown kind", d)
  | some .panics => (.panic "parse_operand: panic!()", d)
  | some (.elems es) => decodeElems G es d
  | some (.maskParams e rows) =>
    match decodeElem G e d with
    | (.ok v, d1) =>
      match decodeElems G (maskSel rows v.num) d1 with
      | (.ok os, d2) => (.ok (v :: os), d2)
      | r => r
    | (.err x, d1) => (.err x, d1)
    | (.panic s, d1) => (.panic s, d1)
  | some (.enumParams e rows) =>
    match decodeElem G e d with
    | (.ok v, d1) =>
      match decodeElems G (enumSel rows v.num) d1 with
      | (.ok os, d2) => (.ok (v :: os), d2)
      | r => r
    | (.err x, d1) => (.err x, d1)
    | (.panic s, d1) => (.panic s, d1)

/-! ### hand-written parser -/

/-- `Ok(dr::Operand::LiteralBit32(self.decoder.bit32()?))` -/
def litOne (G : Tables) (d : DState) : PRes IErr Operand × DState :=
  match DState.word d with
  | (.ok v, d') => (.ok (.w G.vLit32 v), d')
  | (.err x, d') => (.err (.operandError x), d')
  | (.panic s, d') => (.panic s, d')

/-- `Ok(dr::Operand::LiteralBit64(self.decoder.bit64()?))` -/
def litTwo (d : DState) : PRes IErr Operand × DState :=
  match DState.bit64 d with
  | (.ok v, d') => (.ok (.q v), d')
  | (.err x, d') => (.err (.operandError x), d')
  | (.panic s, d') => (.panic s, d')

/-- `Parser::parse_literal` -/
def parseLiteral (G : Tables) (τ : Tracker) (idx : Nat) (typeId : Nat) (d : DState) : PRes IErr Operand × DState :=
  match τ.resolve typeId with
  | some (.int w _) =>
    if w == 8 || w == 16 || w == 32 then litOne G d
    else if w == 64 then litTwo d
    else (.err (.typeUnsupported d.offset idx), d)
  | some (.float w) =>
    if w == 16 || w == 32 then litOne G d
    else if w == 64 then litTwo d
    else (.err (.typeUnsupported d.offset idx), d)
  | none => litOne G d

def isCtxKind (G : Tables) (k : Nat) : Bool := k == G.kCtxNumber || k == G.kPairLitId || k == G.kSpecOp

/-- nested operands of OpSpecConstantOp: `while !limit_reached { append(parse_operand) }` -/
def parseMany (G : Tables) (kind : Nat) : Nat → DState → PRes IErr (List Operand) × DState
  | 0, d => (.panic "parse_spec_constant_op: no progress", d)
  | fuel + 1, d =>
    if d.limitReached then (.ok [], d) else
    match parseOperand G kind d with
    | (.ok os, d1) =>
      match parseMany G kind fuel d1 with
      | (.ok more, d2) => (.ok (os ++ more), d2)
      | r => r
    | r => r

def parseNested (G : Tables) : List (Nat × Nat) → DState → PRes IErr (List Operand) × DState
  | [], d => (.ok [], d)
  | (k, q) :: rest, d =>
    if k == G.kIdResultType || k == G.kIdResult then parseNested G rest d else
    let here : PRes IErr (List Operand) × DState :=
      if q == 0 then parseOperand G k d
      else if q == 1 then (if d.limitReached then (.ok [], d) else parseOperand G k d)
      else parseMany G k ((d.limit.getD 0) + 1) d
    match here with
    | (.ok os, d1) =>
      match parseNested G rest d1 with
      | (.ok more, d2) => (.ok (os ++ more), d2)
      | r => r
    | r => r

/-- `Parser::parse_spec_constant_op` (after fix da2a18e) -/
def parseSpecConstantOp (G : Tables) (idx : Nat) (d : DState) : PRes IErr (List Operand) × DState :=
  match DState.word d with
  | (.err x, d1) => (.err (.operandError x), d1)
  | (.panic s, d1) => (.panic s, d1)
  | (.ok number, d1) =>
    let g := if number ≤ 65535 then lookupOpcode G.core number else none
    let g := g.filter (fun e => !(e.ops.any (fun o => isCtxKind G o.1)))
    match g with
    | some e =>
      match parseNested G e.ops d1 with
      | (.ok os, d2) => (.ok (.w G.vSpecOp e.opcode :: os), d2)
      | r => r
    | none => (.err (.specConstantOpIntegerIncorrect d1.offset idx), d1)

structure Acc where
  rtype : Option Nat
  rid : Option Nat
  ops : List Operand   -- `coperands`, in order

/-- one matched logical operand (the `match loperand.kind` of `parse_operands`) -/
def parseOne (G : Tables) (τ : Tracker) (idx : Nat) (opcode : Nat) (kind : Nat) (a : Acc) (d : DState) : PRes IErr Acc × DState :=
  if kind == G.kIdResultType then
    match DState.word d with
    | (.ok v, d1) => (.ok { a with rtype := some v }, d1)
    | (.err x, d1) => (.err (.operandError x), d1)
    | (.panic s, d1) => (.panic s, d1)
  else if kind == G.kIdResult then
    match DState.word d with
    | (.ok v, d1) => (.ok { a with rid := some v }, d1)
    | (.err x, d1) => (.err (.operandError x), d1)
    | (.panic s, d1) => (.panic s, d1)
  else if kind == G.kCtxNumber then
    if !(opcode == G.opConstant || opcode == G.opSpecConstant) then (.panic "assert: context dependent number outside OpConstant", d) else
    match a.rtype with
    | none => (.panic "expect: result type before context dependent number", d)
    | some t =>
      match parseLiteral G τ idx t d with
      | (.ok o, d1) => (.ok { a with ops := a.ops ++ [o] }, d1)
      | (.err x, d1) => (.err x, d1)
      | (.panic s, d1) => (.panic s, d1)
  else if kind == G.kPairLitId then
    if opcode != G.opSwitch then (.panic "assert_eq: pair literal/id outside OpSwitch", d) else
    match a.ops with
    | [] => (.panic "index: coperands[0]", d)
    | o0 :: _ =>
      match o0 with
      | .w v sel =>
        if v != G.vIdRef then (.panic "OpSwitch selector should be IdRef", d) else
        match parseLiteral G τ idx sel d with
        | (.ok lit, d1) =>
          match DState.word d1 with
          | (.ok tgt, d2) => (.ok { a with ops := a.ops ++ [lit, .w G.vIdRef tgt] }, d2)
          | (.err x, d2) => (.err (.operandError x), d2)
          | (.panic s, d2) => (.panic s, d2)
        | (.err x, d1) => (.err x, d1)
        | (.panic s, d1) => (.panic s, d1)
      | _ => (.panic "OpSwitch selector should be IdRef", d)
  else if kind == G.kSpecOp then
    match parseSpecConstantOp G idx d with
    | (.ok os, d1) => (.ok { a with ops := a.ops ++ os }, d1)
    | (.err x, d1) => (.err x, d1)
    | (.panic s, d1) => (.panic s, d1)
  else
    match parseOperand G kind d with
    | (.ok os, d1) => (.ok { a with ops := a.ops ++ os }, d1)
    | (.err x, d1) => (.err x, d1)
    | (.panic s, d1) => (.panic s, d1)

/-- the `while loperand_index < grammar.operands.len()` loop of `parse_operands`; `fuel` bounds the iterations
(each one either advances the logical operand or, for a variadic operand, consumes at least one word) -/
def parseOperandsLoop (G : Tables) (τ : Tracker) (idx opcode : Nat) : Nat → List (Nat × Nat) → Acc → DState → PRes IErr Acc × DState
  | 0, _, _, d => (.panic "parse_operands: no progress", d)
  | _ + 1, [], a, d => (.ok a, d)
  | fuel + 1, (k, q) :: rest, a, d =>
    if !d.limitReached then
      match parseOne G τ idx opcode k a d with
      | (.ok a1, d1) =>
        if q == 2 then parseOperandsLoop G τ idx opcode fuel ((k, q) :: rest) a1 d1
        else parseOperandsLoop G τ idx opcode fuel rest a1 d1
      | r => r
    else if q == 0 then (.err (.operandExpected d.offset idx), d)
    else (.ok a, d)

/-- `Parser::parse_inst` (the caller has already incremented `inst_index` to `idx`) -/
def parseInst (G : Tables) (τ : Tracker) (idx : Nat) (d : DState) : PRes IErr Inst × DState :=
  match DState.word d with
  | (.ok word, d1) =>
    let wc := word / 65536
    let opcode := word % 65536
    if wc == 0 then (.err (.wordCountZero (d1.offset - 4) idx), d1) else
    match lookupOpcode G.core opcode with
    | some e =>
      let d2 := d1.setLimit (wc - 1)
      match parseOperandsLoop G τ idx e.opcode (wc + e.ops.length + 1) e.ops ⟨none, none, []⟩ d2 with
      | (.ok a, d3) =>
        if !d3.limitReached then (.err (.operandExceeded d3.offset idx), d3)
        else (.ok ⟨e.opcode, a.rtype, a.rid, a.ops⟩, d3.clearLimit)
      | (.err x, d3) => (.err x, d3)
      | (.panic s, d3) => (.panic s, d3)
    | none => (.err (.opcodeUnknown (d1.offset - 4) idx opcode), d1)
  | (_, d1) => (.err .complete, d1)

/-- `Parser::parse_header`: header as delivered to the consumer (`ModuleHeader::new(bound)` + `set_version`) -/
def parseHeader (G : Tables) (d : DState) : PRes PErr Header × DState :=
  match DState.words 5 d with
  | (.ok ws, d1) =>
    let w0 := ws.getD 0 0
    if w0 != G.magic then
      let swapped := (w0 % 256) * 16777216 + (w0 / 256 % 256) * 65536 + (w0 / 65536 % 256) * 256 + w0 / 16777216
      if swapped == G.magic then (.err .endiannessUnsupported, d1) else (.err .headerIncorrect, d1)
    else
      let v := ws.getD 1 0
      -- create_version_from_word = (byte 2, byte 1); create_word_from_version = [0, minor, major, 0]
      (.ok { magic := G.magic, version := (v / 65536 % 256) * 65536 + (v / 256 % 256) * 256,
             generator := 0x000f0000, bound := ws.getD 3 0, reserved := 0 }, d1)
  | (.err x, d1) => (.err (.headerIncomplete x), d1)
  | (.panic s, d1) => (.panic s, d1)

/-- consumer behaviour: the answer to callback number `k` (0 = initialize, 1 = header, 2.. = instructions, finalize) -/
inductive Action where
  | continue_ | stop | error
deriving Repr, DecidableEq

/-- callback events -/
inductive Ev where
  | init | header (h : Header) | inst (i : Inst) | fin
deriving Repr, DecidableEq

structure Run where
  result : PRes PErr Unit
  trace : List Ev

def consume (a : Action) (k : Nat) : Option PErr :=
  match a with
  | .continue_ => none
  | .stop => some .consumerStop
  | .error => some (.consumerError k)

/-- the `loop { parse_inst .. }` of `Parser::parse`; `k` = number of callbacks made so far, `idx` = instruction index -/
def parseLoop (G : Tables) (script : Nat → Action) : Nat → Tracker → Nat → Nat → DState → List Ev → Run
  | 0, _, _, _, _, tr => ⟨.panic "parse: no progress", tr.reverse⟩
  | fuel + 1, τ, k, idx, d, tr =>
    match parseInst G τ (idx + 1) d with
    | (.ok i, d1) =>
      match τ.track G.tt i with
      | none => ⟨.panic "tracker: operand index", tr.reverse⟩
      | some τ1 =>
        let tr1 := Ev.inst i :: tr
        match consume (script k) k with
        | some e => ⟨.err e, tr1.reverse⟩
        | none => parseLoop G script fuel τ1 (k + 1) (idx + 1) d1 tr1
    | (.err .complete, _) =>
      let tr1 := Ev.fin :: tr
      match consume (script k) k with
      | some e => ⟨.err e, tr1.reverse⟩
      | none => ⟨.ok (), tr1.reverse⟩
    | (.err e, _) => ⟨.err (.inst e), tr.reverse⟩
    | (.panic s, _) => ⟨.panic s, tr.reverse⟩

/-- `Parser::new(bytes, consumer).parse()` -/
def parse (G : Tables) (script : Nat → Action) (bytes : List Nat) : Run :=
  match consume (script 0) 0 with
  | some e => ⟨.err e, [.init]⟩
  | none =>
    match parseHeader G (DState.new bytes) with
    | (.ok h, d1) =>
      match consume (script 1) 1 with
      | some e => ⟨.err e, [.init, .header h]⟩
      | none => parseLoop G script (bytes.length + 1) [] 2 0 d1 [.header h, .init]
    | (.err e, _) => ⟨.err e, [.init]⟩
    | (.panic s, _) => ⟨.panic s, [.init]⟩

end Rspirv.Model
