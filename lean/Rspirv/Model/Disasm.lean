import Rspirv.Model.Loader
import Rspirv.Generic.Name
/-
Model of `binary/disassemble.rs` (hand-written) over the regenerated name tables: operands, instructions,
OpConstant by declared type, OpExtInst by imported set, the module walk with its `push!`-if-non-empty chunks.
Text is produced as `String` for the driver; the structural theorems work on the list of lines.
Float literals are rendered by Rust's `f32`/`f64` `Display`, which is not modelled: the model emits a placeholder
`F32(<bits>)` / `F64(<bits>)` that the correspondence check resolves by parsing the implementation's token back to bits.
-/
namespace Rspirv.Model

structure DisTables where
  enums : List EnumSpec
  masks : List MaskSpec
  /-- per Operand variant: (name, payload class 0 enum / 1 mask / 2 word / 3 u32 / 4 u64 / 5 op / 6 string, index) -/
  operandVariants : List (Nat × Nat × Nat)
  /-- printed names of mask bits: (mask index, [(bit, name)]) -/
  maskNames : List (Nat × List (Nat × Nat))
  /-- variants forwarded to their mask name table -/
  forwarded : List Nat
  /-- variants printed as `%n` -/
  idDispatch : List Nat
  /-- `Display` arms of `dr::Operand`: (variant, 0 = `{:?}`, 1 = `%{}`, 2 = `{:?}` with 3 characters stripped) -/
  displayArms : List (Nat × Nat)
  /-- section order of `Module::global_inst_iter` (translated from dr/constructs.rs) -/
  globalOrder : List Nat
  core : List Entry
  glsl : List Entry
  opencl : List Entry
  opEnum : EnumSpec
  vDim : Nat
  opConstant : Nat
  opExtInst : Nat
  opExtInstImport : Nat
  opTypeInt : Nat
  opTypeFloat : Nat
  vIdRef : Nat
  vLit32 : Nat
  vExtInstInteger : Nat
  isType : Nat → Bool

/-- One printed operand, before it is rendered to characters. Names are carried by their codes. -/
inductive Tok where
  | id (n : Nat)                       -- `%n`
  | num (n : Nat)                      -- decimal
  | neg (n : Nat)                      -- `-n` (n > 0): a negative signed literal
  | name (code : Nat) (strip : Nat)    -- a specification name (`strip` leading characters removed: `Dim`)
  | mask (codes : List Nat)            -- bit names joined by `|`; `None` when empty
  | str (bytes : List Nat)             -- quoted, escaped string
  | f32 (bits : Nat) | f64 (bits : Nat)
  | bad                                -- a table lookup that cannot fail on loader/Builder output failed
deriving Repr, DecidableEq

/-- `Debug` name of an enum value: the first declared variant with that discriminant -/
def debugName (E : EnumSpec) (strip : Nat) (v : Nat) : Tok :=
  match E.decl.find? (fun p => p.2 == v) with
  | some p => .name p.1 strip
  | none => .bad

def hexNib (n : Nat) : Char := if n < 10 then Char.ofNat (48 + n) else Char.ofNat (87 + n)

/-- Rust `{:?}` of a `str`: quote, backslash, \n \r \t \0 escaped, other ASCII control characters as `\u{..}`,
printable ASCII verbatim. For text with non-ASCII characters Rust consults Unicode printability tables that are not
modelled: the model then emits the placeholder `S(<hex of the bytes>)`, which the correspondence check resolves by
un-escaping the implementation's quoted token back to bytes (as it does for floats). -/
def debugStr (bytes : List Nat) : String :=
  if bytes.any (· ≥ 128) then "S(" ++ String.join (bytes.map (fun b => String.singleton (hexNib (b / 16)) ++ String.singleton (hexNib (b % 16)))) ++ ")" else
  let esc (n : Nat) : String :=
    let c := Char.ofNat n
    if c == '"' then "\\\"" else if c == '\\' then "\\\\" else if c == '\n' then "\\n" else if c == '\r' then "\\r"
    else if c == '\t' then "\\t" else if c == '\x00' then "\\0" else if c == '\'' then "'"
    else if n < 32 || n == 127 then
      "\\u{" ++ (if n ≥ 16 then String.singleton (hexNib (n / 16)) else "") ++ String.singleton (hexNib (n % 16)) ++ "}"
    else String.singleton c
  "\"" ++ String.join (bytes.map esc) ++ "\""

/-- the lexical layer: a token as characters. Floats are rendered by Rust's `Display` (not modelled): the
placeholder is resolved by the correspondence check. -/
def Tok.render : Tok → String
  | .id n => s!"%{n}"
  | .num n => toString n
  | .neg n => "-" ++ toString n
  | .name c k => ((nameString c).drop k).toString
  | .mask [] => "None"
  | .mask cs => "|".intercalate (cs.map nameString)
  | .str b => debugStr b
  | .f32 v => s!"F32({v})"
  | .f64 v => s!"F64({v})"
  | .bad => "?"

/-- `<mask>.disassemble()` from the generated name table: the names of the rows whose bits are all set -/
def maskTok (rows : List (Nat × Nat)) (v : Nat) : Tok :=
  .mask ((rows.filter (fun r => v &&& r.1 == r.1)).map (·.2))

/-- `impl Disassemble for dr::Operand` -/
def operandTok (D : DisTables) : Operand → Tok
  | .w variant v =>
    if D.idDispatch.contains variant then .id v
    else
    match D.operandVariants[variant]? with
    | none => .bad
    | some (_, cls, ix) =>
      if D.forwarded.contains variant then
        match D.maskNames.find? (fun r => r.1 == ix) with
        | some r => maskTok r.2 v
        | none => .bad
      else
      -- `format!("{}", self)`: the Display arm of the variant
      match (D.displayArms.find? (fun a => a.1 == variant)).map (·.2) with
      | some 1 => .id v
      | some k =>
        if cls == 0 then
          match D.enums[ix]? with
          | some E => debugName E (if k == 2 then 3 else 0) v
          | none => .bad
        else if cls == 5 then debugName D.opEnum 0 v
        else if cls == 1 then .bad      -- bitflags `Debug`: no mask variant reaches here after fix 771ab1e
        else .num v
      | none => .bad
  | .q v => .num v
  | .s b => .str b

def disasOperand (D : DisTables) (o : Operand) : String := (operandTok D o).render

/-- one printed instruction before rendering -/
structure Line where
  rid : Option Nat
  /-- name code of the opcode (`none`: opcode not in the grammar table; cannot happen for `dr::Instruction`) -/
  op : Option Nat
  rtype : Option Nat
  toks : List Tok
deriving Repr, DecidableEq

/-- `disas_instruction(inst, space, operands)`: `space` is `" "` unless the operand text is empty -/
def Line.render (l : Line) : String :=
  let space := if l.toks.isEmpty then "" else " "
  (match l.rid with | some w => s!"%{w} = " | none => "") ++ "Op" ++ (match l.op with | some c => nameString c | none => "?") ++
  (match l.rtype with | some w => s!"  %{w}{space}" | none => "") ++ space ++ " ".intercalate (l.toks.map Tok.render)

def opNameCode (D : DisTables) (opcode : Nat) : Option Nat := (lookupOpcode D.core opcode).map (·.name)

def lineWith (D : DisTables) (i : Inst) (toks : List Tok) : Line := ⟨i.rid, opNameCode D i.opcode, i.rtype, toks⟩

/-- `impl Disassemble for dr::Instruction` -/
def instLine (D : DisTables) (i : Inst) : Line := lineWith D i (i.operands.map (operandTok D))

def disasInst (D : DisTables) (i : Inst) : String := (instLine D i).render

/-- `(value as i32).to_string()` / `(value as i64).to_string()` -/
def signedTok (bits : Nat) (v : Nat) : Tok :=
  if v < 2 ^ (bits - 1) then .num v else .neg (2 ^ bits - v)

/-- `disas_constant` (after fix 771ab1e) -/
def constantLine (D : DisTables) (τ : Tracker) (i : Inst) : Line :=
  match i.rtype.bind τ.resolve with
  | none => instLine D i
  | some t =>
    match i.operands.head? with
    | some (.w variant v) =>
      if variant == D.vLit32 then
        lineWith D i [match t with
          | .int _ true => signedTok 32 v
          | .int _ false => .num v
          | .float _ => .f32 v]
      else instLine D i
    | some (.q v) =>
      lineWith D i [match t with
        | .int _ true => signedTok 64 v
        | .int _ false => .num v
        | .float _ => .f64 v]
    | _ => instLine D i

/-- extended instruction sets recognised by `ExtInstSetTracker`: id ↦ 0 (GLSL.std.450) | 1 (OpenCL.std) -/
abbrev ExtSets := List (Nat × Nat)

def glslName : List Nat := "GLSL.std.450".toUTF8.toList.map (·.toNat)
def openclName : List Nat := "OpenCL.std".toUTF8.toList.map (·.toNat)

/-- `ExtInstSetTracker::track` over `ext_inst_imports` -/
def trackExt (D : DisTables) (sets : ExtSets) (i : Inst) : ExtSets :=
  if i.opcode != D.opExtInstImport then sets else
  match i.rid, i.operands.head? with
  | some rid, some (.s b) =>
    if b == glslName then (rid, 0) :: sets else if b == openclName then (rid, 1) :: sets else sets
  | _, _ => sets

/-- `disas_ext_inst` -/
def extInstLine (D : DisTables) (sets : ExtSets) (i : Inst) : Line :=
  match i.operands with
  | .w v0 id :: .w v1 num :: rest =>
    if v0 == D.vIdRef && v1 == D.vExtInstInteger then
      match (sets.find? (fun p => p.1 == id)).map (·.2) with
      | none => instLine D i
      | some k =>
        match lookupOpcode (if k == 0 then D.glsl else D.opencl) num with
        | some g => lineWith D i (operandTok D (.w v0 id) :: .name g.name 0 :: rest.map (operandTok D))
        | none => instLine D i
    else instLine D i
  | _ => instLine D i

def generatorName (tool : Nat) : String :=
  match tool with
  | 0 => "The Khronos Group" | 1 => "LunarG" | 2 => "Valve" | 3 => "Codeplay" | 4 => "NVIDIA" | 5 => "ARM"
  | 6 => "LLVM/SPIR-V Translator" | 7 => "SPIR-V Tools Assembler" | 8 => "Glslang" | 9 => "Qualcomm" | 10 => "AMD"
  | 11 => "Intel" | 12 => "Imagination" | 13 => "Shaderc" | 14 => "spiregg" | 15 => "rspirv" | _ => "Unknown"

/-- the four header comment lines -/
def headerLines (h : Header) : List String :=
  ["; SPIR-V", s!"; Version: {h.version / 65536 % 256}.{h.version / 256 % 256}",
   s!"; Generator: {generatorName (h.generator / 65536 % 65536)}", s!"; Bound: {h.bound}"]

/-- the three ways `Module::disassemble` prints an instruction, by where it sits -/
inductive Where where
  | global      -- `global_inst_iter`: OpConstant by declared type
  | fnLevel     -- function definition, parameters, labels, OpFunctionEnd
  | block       -- block instructions: OpExtInst by imported set
deriving Repr, DecidableEq

def lineAt (D : DisTables) (sets : ExtSets) (τ : Tracker) : Where → Inst → Line
  | .global, i => if i.opcode == D.opConstant then constantLine D τ i else instLine D i
  | .fnLevel, i => instLine D i
  | .block, i => if i.opcode == D.opExtInst then extInstLine D sets i else instLine D i

def Block.placed (b : Block Inst) : List (Where × Inst) :=
  b.label.toList.map (fun i => (Where.fnLevel, i)) ++ b.insts.map (fun i => (Where.block, i))

def Function.placed (f : Function Inst) : List (Where × Inst) :=
  f.def_.toList.map (fun i => (Where.fnLevel, i)) ++ f.params.map (fun i => (Where.fnLevel, i)) ++
  f.blocks.flatMap Block.placed ++ f.end_.toList.map (fun i => (Where.fnLevel, i))

/-- every instruction of the module with its position class, in the order `Module::disassemble` walks them -/
def Module.placed (go : List Nat) (m : Module Inst) : List (Where × Inst) :=
  (m.globalChain go).map (fun i => (Where.global, i)) ++ m.functions.flatMap Function.placed

def disasExtSets (D : DisTables) (m : Module Inst) : ExtSets := m.extInstImports.foldl (trackExt D) []

def disasTracker (D : DisTables) (m : Module Inst) : Tracker :=
  m.typesGlobalValues.foldl (fun τ i => (Tracker.track ⟨D.isType, D.opTypeInt, D.opTypeFloat, D.vLit32⟩ τ i).getD τ) []

/-- the instruction lines of `Module::disassemble`, unrendered -/
def moduleLines (D : DisTables) (m : Module Inst) : List Line :=
  (m.placed D.globalOrder).map (fun p => lineAt D (disasExtSets D m) (disasTracker D m) p.1 p.2)

/-- `Module::disassemble` as the list of lines it joins with newlines. Each `push!`ed chunk is a list of lines; an
empty chunk contributes nothing (the `push!` macro skips empty strings, and a chunk is empty exactly when it has no
line because every instruction line contains `Op`). -/
def disasLines (D : DisTables) (m : Module Inst) : List String :=
  (m.header.map headerLines).getD [] ++ (moduleLines D m).map Line.render

def disasText (D : DisTables) (m : Module Inst) : String := "\n".intercalate (disasLines D m)

end Rspirv.Model
