import Rspirv.Model.Parser
/-
Model of `binary/assemble.rs`: `assemble_str`, the operand arms (by payload class), `Instruction::assemble_into`.
-/
namespace Rspirv.Model

/-- `u32::from_le_bytes` of up to four bytes (missing bytes are zero) -/
def leWord (b : List Nat) : Nat :=
  b.getD 0 0 + 256 * b.getD 1 0 + 65536 * b.getD 2 0 + 16777216 * b.getD 3 0

/-- `assemble_str`: full 4-byte chunks, then one more word holding the remainder zero-padded (this is the word
that carries the NUL terminator; it is all zero when the length is a multiple of four) -/
def packStr : List Nat → List Nat
  | b0 :: b1 :: b2 :: b3 :: t => leWord [b0, b1, b2, b3] :: packStr t
  | r => [leWord r]

/-- `impl Assemble for dr::Operand` by payload class: every one-word variant pushes its number (`v.bits()`,
`v as u32` or `v`), `LiteralBit64` pushes low then high word, `LiteralString` goes through `assemble_str` -/
def encodeOperand : Operand → List Nat
  | .w _ v => [v]
  | .q v => [v % 4294967296, v / 4294967296]
  | .s bs => packStr bs

/-- `impl Assemble for dr::Instruction`: opcode word patched with `(len as u32) << 16` (bits shifted out of the
32-bit word are lost, as in the Rust expression) -/
def assembleInst (i : Inst) : List Nat :=
  let body := i.rtype.toList ++ i.rid.toList ++ i.operands.flatMap encodeOperand
  let len := body.length + 1
  (i.opcode ||| (len * 65536 % 4294967296)) :: body

end Rspirv.Model
