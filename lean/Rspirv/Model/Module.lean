/-
Model of `dr::Module` / `Function` / `Block` (rspirv/dr/constructs.rs) over an arbitrary instruction type,
of the six traversal iterators and of the `Assemble` impls for block, function and module
(rspirv/binary/assemble.rs). The *orders* in which fields are chained are data (regenerated from the
source on every run): the model functions interpret them.
-/
namespace Rspirv.Model

structure Header where
  magic : Nat
  version : Nat
  generator : Nat
  bound : Nat
  reserved : Nat
deriving Repr, DecidableEq

structure Block (ι : Type) where
  label : Option ι
  insts : List ι
deriving Repr, DecidableEq

structure Function (ι : Type) where
  def_ : Option ι
  end_ : Option ι
  params : List ι
  blocks : List (Block ι)
deriving Repr, DecidableEq

structure Module (ι : Type) where
  header : Option Header
  capabilities : List ι
  extensions : List ι
  extInstImports : List ι
  memoryModel : Option ι
  entryPoints : List ι
  executionModes : List ι
  debugStringSource : List ι
  debugNames : List ι
  debugModuleProcessed : List ι
  annotations : List ι
  typesGlobalValues : List ι
  functions : List (Function ι)
deriving Repr, DecidableEq

variable {ι : Type}

/-- section number `k` in declaration (= logical layout) order; `memory_model` is an `Option` -/
def Module.sect (m : Module ι) : Nat → List ι
  | 0 => m.capabilities
  | 1 => m.extensions
  | 2 => m.extInstImports
  | 3 => m.memoryModel.toList
  | 4 => m.entryPoints
  | 5 => m.executionModes
  | 6 => m.debugStringSource
  | 7 => m.debugNames
  | 8 => m.debugModuleProcessed
  | 9 => m.annotations
  | 10 => m.typesGlobalValues
  | _ => []

def Header.field (h : Header) : Nat → List Nat
  | 0 => [h.magic]
  | 1 => [h.version]
  | 2 => [h.generator]
  | 3 => [h.bound]
  | 4 => [h.reserved]
  | _ => []

def Block.piece (b : Block ι) : Nat → List ι
  | 0 => b.label.toList
  | 1 => b.insts
  | _ => []

/-- `b.label.iter().chain(b.instructions.iter())` with the chain order as data -/
def Block.chain (bo : List Nat) (b : Block ι) : List ι := bo.flatMap b.piece

def Function.piece (bo : List Nat) (f : Function ι) : Nat → List ι
  | 0 => f.def_.toList
  | 1 => f.params
  | 2 => f.blocks.flatMap (Block.chain bo)
  | 3 => f.end_.toList
  | _ => []

/-- `Function::all_inst_iter` -/
def Function.chain (fo bo : List Nat) (f : Function ι) : List ι := fo.flatMap (f.piece bo)

/-- `Module::global_inst_iter` -/
def Module.globalChain (go : List Nat) (m : Module ι) : List ι := go.flatMap m.sect

/-- `Module::all_inst_iter`: the section chain, then (iff the chain ends with the `flat_map` over functions)
every function's traversal -/
def Module.allChain (ao : List Nat) (tail : Bool) (fo bo : List Nat) (m : Module ι) : List ι :=
  ao.flatMap m.sect ++ (if tail then m.functions.flatMap (Function.chain fo bo) else [])

/-! ### assembly -/

def Block.asm (ab : List Nat) (asm : ι → List Nat) (b : Block ι) : List Nat :=
  ab.flatMap (fun p => (b.piece p).flatMap asm)

def Function.asmPiece (ab : List Nat) (asm : ι → List Nat) (f : Function ι) : Nat → List Nat
  | 0 => f.def_.toList.flatMap asm
  | 1 => f.params.flatMap asm
  | 2 => f.blocks.flatMap (Block.asm ab asm)
  | 3 => f.end_.toList.flatMap asm
  | _ => []

def Function.asm (af ab : List Nat) (asm : ι → List Nat) (f : Function ι) : List Nat :=
  af.flatMap (f.asmPiece ab asm)

def Header.asm (ah : List Nat) (h : Header) : List Nat := ah.flatMap h.field

/-- `Module::assemble_into`: statement kinds 0 = header, 1 = `for inst in self.global_inst_iter()`,
2 = `for f in &self.functions` -/
def Module.asmPiece (ah go af ab : List Nat) (asm : ι → List Nat) (m : Module ι) : Nat → List Nat
  | 0 => (m.header.map (Header.asm ah)).getD []
  | 1 => (m.globalChain go).flatMap asm
  | 2 => m.functions.flatMap (Function.asm af ab asm)
  | _ => []

def Module.asm (am ah go af ab : List Nat) (asm : ι → List Nat) (m : Module ι) : List Nat :=
  am.flatMap (m.asmPiece ah go af ab asm)

end Rspirv.Model
