import Rspirv.Model.Parser
/-
The *specification* of what the parser accepts: a recogniser over plain lists of words — no byte buffer, no offsets,
no limits, no error kinds, no panics. `Spec.inst G τ ws` reads one instruction from the head of the word list `ws`
(the rest of the stream) and returns it with the words that follow it, or `none` if the words do not match the
grammar:

* the first word is `word count << 16 | opcode` with a non-zero word count and an opcode of the grammar table, and the
  stream holds the `word count - 1` operand words;
* the operand words are consumed by the opcode's logical operands in order: a required operand must be there; an
  optional operand is there iff words remain; a variadic operand repeats until no word remains; when the words run
  out the remaining logical operands must all be optional/variadic; no word may be left over;
* one logical operand of a kind is the kind's element sequence: an enumerant must be a declared value, a mask must
  have declared bits only, and either is followed by the parameters its value demands; an id or literal is any word;
  a string is NUL-terminated valid UTF-8 occupying whole words;
* `OpConstant`/`OpSpecConstant` literals take one or two words as the declared result type says (`C10`), `OpSwitch`
  cases as the selector's type says, `OpSpecConstantOp` embeds the operands of another (context-free) opcode.

The theorems of `Props/ParserSpec.lean` show that `Parser::parse_inst` (the statement-by-statement model with its
decoder state, limits and panic sites) accepts exactly what this recogniser accepts and delivers the same instruction.
-/
namespace Rspirv.Model.Spec
open Rspirv Rspirv.Model Rspirv.Model.DState

def wordBytes (w : Nat) : List Nat := [w % 256, w / 256 % 256, w / 65536 % 256, w / 16777216 % 256]

/-- a NUL-terminated string at the head of the words: its bytes, and the words after the word holding the NUL -/
def str (ws : List Nat) : Option (List Nat × List Nat) :=
  match (ws.flatMap wordBytes).findIdx? (· == 0) with
  | none => none
  | some nul =>
    if validUtf8 ((ws.flatMap wordBytes).take nul) then some ((ws.flatMap wordBytes).take nul, ws.drop (nul / 4 + 1))
    else none

def elem (G : Tables) (e : Elem) (ws : List Nat) : Option (Operand × List Nat) :=
  if e.dec == 0 then
    match ws with
    | [] => none
    | w :: t =>
      match G.enums[e.ix]? with
      | some E => (match E.fromU32 w with | some v => some (.w e.variant v, t) | none => none)
      | none => none
  else if e.dec == 1 then
    match ws with
    | [] => none
    | w :: t =>
      match G.masks[e.ix]? with
      | some M => (match M.fromBits w with | some v => some (.w e.variant v, t) | none => none)
      | none => none
  else if e.dec == 2 then
    match ws with
    | [] => none
    | w :: t => some (.w e.variant w, t)
  else
    match str ws with
    | some (bs, rest) => some (.s bs, rest)
    | none => none

def elems (G : Tables) : List Elem → List Nat → Option (List Operand × List Nat)
  | [], ws => some ([], ws)
  | e :: es, ws =>
    match elem G e ws with
    | some (o, t) => (match elems G es t with | some (os, t') => some (o :: os, t') | none => none)
    | none => none

/-- one occurrence of a (context free) logical operand kind -/
def operand (G : Tables) (kind : Nat) (ws : List Nat) : Option (List Operand × List Nat) :=
  match G.kindActs[kind]? with
  | some (.elems es) => elems G es ws
  | some (.maskParams e rows) =>
    (match elem G e ws with
     | some (v, t) => (match elems G (maskSel rows v.num) t with | some (os, t') => some (v :: os, t') | none => none)
     | none => none)
  | some (.enumParams e rows) =>
    (match elem G e ws with
     | some (v, t) => (match elems G (enumSel rows v.num) t with | some (os, t') => some (v :: os, t') | none => none)
     | none => none)
  | _ => none

def lit1 (G : Tables) (ws : List Nat) : Option (Operand × List Nat) :=
  match ws with
  | w :: t => some (.w G.vLit32 w, t)
  | [] => none

/-- a 64-bit literal: low word first (words are 32-bit quantities) -/
def lit2 (ws : List Nat) : Option (Operand × List Nat) :=
  match ws with
  | lo :: hi :: t => some (.q ((hi % 4294967296) * 4294967296 + lo % 4294967296), t)
  | _ => none

/-- a literal whose width the type `typeId` decides -/
def literal (G : Tables) (τ : Tracker) (typeId : Nat) (ws : List Nat) : Option (Operand × List Nat) :=
  match τ.resolve typeId with
  | some (.int w _) => if w == 8 || w == 16 || w == 32 then lit1 G ws else if w == 64 then lit2 ws else none
  | some (.float w) => if w == 16 || w == 32 then lit1 G ws else if w == 64 then lit2 ws else none
  | none => lit1 G ws

/-- repeat a kind until the words run out -/
def many (G : Tables) (kind : Nat) : Nat → List Nat → Option (List Operand)
  | 0, _ => none
  | fuel + 1, ws =>
    if ws.isEmpty then some [] else
    match operand G kind ws with
    | some (os, t) => (match many G kind fuel t with | some more => some (os ++ more) | none => none)
    | none => none

/-- the operands of the opcode embedded in `OpSpecConstantOp`: result kinds skipped -/
def nested (G : Tables) : List (Nat × Nat) → List Nat → Option (List Operand × List Nat)
  | [], ws => some ([], ws)
  | (k, q) :: rest, ws =>
    if k == G.kIdResultType || k == G.kIdResult then nested G rest ws else
    let here : Option (List Operand × List Nat) :=
      if q == 0 then operand G k ws
      else if q == 1 then (if ws.isEmpty then some ([], ws) else operand G k ws)
      else (match many G k (ws.length + 1) ws with | some os => some (os, []) | none => none)
    match here with
    | some (os, t) => (match nested G rest t with | some (more, t') => some (os ++ more, t') | none => none)
    | none => none

def specOp (G : Tables) (ws : List Nat) : Option (List Operand × List Nat) :=
  match ws with
  | [] => none
  | number :: t =>
    match (if number ≤ 65535 then lookupOpcode G.core number else none).filter (fun e => !(e.ops.any (fun o => isCtxKind G o.1))) with
    | some e => (match nested G e.ops t with | some (os, t') => some (.w G.vSpecOp e.opcode :: os, t') | none => none)
    | none => none

/-- one logical operand against the accumulator -/
def one (G : Tables) (τ : Tracker) (opcode kind : Nat) (a : Acc) (ws : List Nat) : Option (Acc × List Nat) :=
  if kind == G.kIdResultType then (match ws with | w :: t => some ({ a with rtype := some w }, t) | [] => none)
  else if kind == G.kIdResult then (match ws with | w :: t => some ({ a with rid := some w }, t) | [] => none)
  else if kind == G.kCtxNumber then
    if !(opcode == G.opConstant || opcode == G.opSpecConstant) then none else
    match a.rtype with
    | none => none
    | some ty => (match literal G τ ty ws with | some (o, t) => some ({ a with ops := a.ops ++ [o] }, t) | none => none)
  else if kind == G.kPairLitId then
    if opcode != G.opSwitch then none else
    match a.ops with
    | .w v sel :: _ =>
      if v != G.vIdRef then none else
      (match literal G τ sel ws with
       | some (lit, tgt :: t) => some ({ a with ops := a.ops ++ [lit, .w G.vIdRef tgt] }, t)
       | _ => none)
    | _ => none
  else if kind == G.kSpecOp then
    (match specOp G ws with | some (os, t) => some ({ a with ops := a.ops ++ os }, t) | none => none)
  else
    (match operand G kind ws with | some (os, t) => some ({ a with ops := a.ops ++ os }, t) | none => none)

/-- the logical operands of an entry over exactly the operand words of the instruction -/
def loop (G : Tables) (τ : Tracker) (opcode : Nat) : Nat → List (Nat × Nat) → Acc → List Nat → Option (Acc × List Nat)
  | 0, _, _, _ => none
  | _ + 1, [], a, ws => some (a, ws)
  | fuel + 1, (k, q) :: rest, a, ws =>
    if !ws.isEmpty then
      match one G τ opcode k a ws with
      | some (a1, t) => if q == 2 then loop G τ opcode fuel ((k, q) :: rest) a1 t else loop G τ opcode fuel rest a1 t
      | none => none
    else if q == 0 then none
    else some (a, ws)

/-- **the grammar of one instruction** over the rest of the word stream -/
def inst (G : Tables) (τ : Tracker) (ws : List Nat) : Option (Inst × List Nat) :=
  match ws with
  | [] => none
  | w0 :: t =>
    let wc := w0 / 65536
    if wc == 0 then none else
    match lookupOpcode G.core (w0 % 65536) with
    | none => none
    | some e =>
      if t.length < wc - 1 then none else
      match loop G τ e.opcode (wc + e.ops.length + 1) e.ops ⟨none, none, []⟩ (t.take (wc - 1)) with
      | some (a, []) => some (⟨e.opcode, a.rtype, a.rid, a.ops⟩, t.drop (wc - 1))
      | _ => none

/-- the instructions of a word stream, in order, up to the first one the grammar rejects (or the end), together with the
words from that point on; the type tracker follows the delivered instructions -/
def insts (G : Tables) : Nat → Tracker → List Nat → List Inst × List Nat
  | 0, _, ws => ([], ws)
  | fuel + 1, τ, ws =>
    match inst G τ ws with
    | none => ([], ws)
    | some (i, rest) =>
      match τ.track G.tt i with
      | none => ([], ws)
      | some τ1 => (i :: (insts G fuel τ1 rest).1, (insts G fuel τ1 rest).2)

/-- the whole words of a binary after its five header words -/
def streamWords (bytes : List Nat) : List Nat :=
  (List.range ((bytes.length - 20) / 4)).map (fun k => le32 bytes (20 + 4 * k))

end Rspirv.Model.Spec
